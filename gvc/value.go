package main

import (
	"fmt"
	"go/types"
	"regexp"
	"strings"

	"golang.org/x/tools/go/ssa"
)

// Comp is one SMT component of a Go value's flat layout.
type Comp struct {
	Name string // path-like name, "" for scalars
	S    Sort
}

// AddrKind says what an exec-level pointer refers to.
type AddrKind int

const (
	AddrNone   AddrKind = iota
	AddrLocal           // a non-escaping local cell
	AddrField           // field (path) of heap object Base, of struct type Styp
	AddrElem            // element Idx (absolute index into backing array) of backing array Base
	AddrGlobal          // package-level variable
	AddrBox             // heap cell holding a non-struct value
)

type Addr struct {
	Kind   AddrKind
	Cell   *ssa.Alloc  // AddrLocal
	Base   *T          // AddrField/AddrElem/AddrBox: object ref / backing array ref
	Styp   types.Type  // AddrField: the outermost struct type (named or struct)
	Field  int         // AddrField: field index within Styp
	Idx    *T          // AddrElem
	Global *ssa.Global // AddrGlobal
	Elem   types.Type  // pointee type
}

// Closure is an exec-level function value.
type Closure struct {
	Fn       *ssa.Function
	Bindings []Val
}

// Val is a symbolic Go value: a flat vector of SMT terms per the type's layout.
type Val struct {
	Typ  types.Type
	C    []*T
	Addr *Addr    // for pointers whose target is known at exec level
	Clo  *Closure // for func values known at exec level
}

func (v Val) T() *T {
	if len(v.C) != 1 {
		panic(fmt.Sprintf("Val.T on %d-component value of type %v", len(v.C), v.Typ))
	}
	return v.C[0]
}

var (
	byteRe = regexp.MustCompile(`\bbyte\b`)
	runeRe = regexp.MustCompile(`\brune\b`)
	anyRe  = regexp.MustCompile(`\bany\b`)
)

type layoutCache struct {
	m map[types.Type][]Comp
}

var layouts = &layoutCache{m: map[types.Type][]Comp{}}

// Layout returns the flat component list of a Go type.
func Layout(t types.Type) []Comp {
	if l, ok := layouts.m[t]; ok {
		return l
	}
	l := computeLayout(t, map[types.Type]bool{})
	layouts.m[t] = l
	return l
}

func computeLayout(t types.Type, seen map[types.Type]bool) []Comp {
	switch u := t.Underlying().(type) {
	case *types.Basic:
		switch {
		case u.Info()&types.IsBoolean != 0:
			return []Comp{{"", SBool}}
		case u.Info()&types.IsInteger != 0:
			return []Comp{{"", SInt}}
		case u.Info()&types.IsFloat != 0:
			return []Comp{{"", SReal}}
		case u.Info()&types.IsString != 0:
			return []Comp{{"", SStr}}
		case u.Kind() == types.UnsafePointer || u.Kind() == types.UntypedNil:
			return []Comp{{"", SInt}}
		}
		return []Comp{{"", SInt}}
	case *types.Pointer, *types.Map, *types.Chan, *types.Signature, *types.Interface:
		return []Comp{{"", SInt}}
	case *types.Slice:
		return []Comp{{"base", SInt}, {"off", SInt}, {"len", SInt}, {"cap", SInt}}
	case *types.Array:
		return []Comp{{"", SInt}} // opaque handle
	case *types.Struct:
		if seen[t] {
			return []Comp{{"", SInt}}
		}
		seen[t] = true
		var out []Comp
		for i := 0; i < u.NumFields(); i++ {
			f := u.Field(i)
			sub := computeLayout(f.Type(), seen)
			for _, c := range sub {
				n := f.Name()
				if c.Name != "" {
					n += "." + c.Name
				}
				out = append(out, Comp{n, c.S})
			}
		}
		delete(seen, t)
		if len(out) == 0 {
			return nil
		}
		return out
	case *types.Tuple:
		var out []Comp
		for i := 0; i < u.Len(); i++ {
			sub := computeLayout(u.At(i).Type(), seen)
			for _, c := range sub {
				out = append(out, Comp{fmt.Sprintf("%d.%s", i, c.Name), c.S})
			}
		}
		return out
	}
	return []Comp{{"", SInt}}
}

// fieldRange returns the component index range [lo,hi) of field i within struct type st.
func fieldRange(st *types.Struct, i int) (int, int) {
	lo := 0
	for j := 0; j < i; j++ {
		lo += len(Layout(st.Field(j).Type()))
	}
	return lo, lo + len(Layout(st.Field(i).Type()))
}

func tupleRange(tp *types.Tuple, i int) (int, int) {
	lo := 0
	for j := 0; j < i; j++ {
		lo += len(Layout(tp.At(j).Type()))
	}
	return lo, lo + len(Layout(tp.At(i).Type()))
}

// typeKey yields a stable SMT-safe name for a type.
func typeKey(t types.Type) string {
	s := types.TypeString(t, func(p *types.Package) string { return p.Name() })
	// byte and rune are aliases: one memory region per real type
	s = byteRe.ReplaceAllString(s, "uint8")
	s = runeRe.ReplaceAllString(s, "int32")
	s = anyRe.ReplaceAllString(s, "interface{}")
	return sanitize(s)
}

func sanitize(s string) string {
	var sb strings.Builder
	for _, c := range s {
		switch {
		case c >= 'a' && c <= 'z', c >= 'A' && c <= 'Z', c >= '0' && c <= '9', c == '_':
			sb.WriteRune(c)
		case c == '.':
			sb.WriteString("_")
		case c == '*':
			sb.WriteString("P")
		case c == '[':
			sb.WriteString("L")
		case c == ']':
			sb.WriteString("R")
		case c == '$':
			sb.WriteString("S")
		default:
			sb.WriteString("_")
		}
	}
	return sb.String()
}

// structOf returns the struct type underlying t (through pointers), or nil.
func structOf(t types.Type) *types.Struct {
	if p, ok := t.Underlying().(*types.Pointer); ok {
		t = p.Elem()
	}
	s, _ := t.Underlying().(*types.Struct)
	return s
}

func deref(t types.Type) types.Type {
	if p, ok := t.Underlying().(*types.Pointer); ok {
		return p.Elem()
	}
	return t
}

func isStruct(t types.Type) bool {
	_, ok := t.Underlying().(*types.Struct)
	return ok
}

func isPointerLike(t types.Type) bool {
	switch t.Underlying().(type) {
	case *types.Pointer, *types.Map, *types.Chan, *types.Signature, *types.Interface:
		return true
	}
	return false
}

func isInterface(t types.Type) bool {
	_, ok := t.Underlying().(*types.Interface)
	return ok
}

// intRange returns (lo, hi, ok) bounds for integer basic kinds as decimal strings handled via big ints.
func intBits(t types.Type) (bits int, signed bool, ok bool) {
	b, isB := t.Underlying().(*types.Basic)
	if !isB || b.Info()&types.IsInteger == 0 {
		return 0, false, false
	}
	switch b.Kind() {
	case types.Int8:
		return 8, true, true
	case types.Int16:
		return 16, true, true
	case types.Int32:
		return 32, true, true
	case types.Int, types.Int64, types.UntypedInt, types.UntypedRune:
		return 64, true, true
	case types.Uint8:
		return 8, false, true
	case types.Uint16:
		return 16, false, true
	case types.Uint32:
		return 32, false, true
	case types.Uint, types.Uint64, types.Uintptr:
		return 64, false, true
	}
	return 64, true, true
}
