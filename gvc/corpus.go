package main

import (
	"encoding/json"
	"fmt"
	"os"
	"os/exec"
	"path/filepath"
	"strings"
)

// The must-fail / must-pass corpus (thorough tier): every mutant of selftest/mutants.tsv and every seeded change under
// seeded/ that targets the property is applied to a scratch copy of the repository (never to the repository itself)
// and the quick check is run on the copy. The outcome is recorded in the evidence file; it does not change the exit
// code of the check (an undetected mutant is a weakness of the checker, not a violation of the property).
type corpusResult struct {
	Ran        int      `json:"ran"`
	AsExpected int      `json:"as_expected"`
	Unexpected []string `json:"unexpected"`
	Skipped    []string `json:"skipped,omitempty"`
}

func copyTree(src, dst string) error {
	return filepath.Walk(src, func(p string, info os.FileInfo, err error) error {
		if err != nil {
			return err
		}
		rel, _ := filepath.Rel(src, p)
		if info.IsDir() {
			if info.Name() == ".git" || info.Name() == "node_modules" {
				return filepath.SkipDir
			}
			return os.MkdirAll(filepath.Join(dst, rel), 0o755)
		}
		if !info.Mode().IsRegular() {
			return nil
		}
		b, err := os.ReadFile(p)
		if err != nil {
			return err
		}
		return os.WriteFile(filepath.Join(dst, rel), b, info.Mode().Perm())
	})
}

func runCorpus(o checkOpts) *corpusResult {
	res := &corpusResult{Unexpected: []string{}}
	exe, err := os.Executable()
	if err != nil {
		return res
	}
	tmp, err := os.MkdirTemp("", "gvc-corpus-")
	if err != nil {
		return res
	}
	defer os.RemoveAll(tmp)
	cp := filepath.Join(tmp, "repo")
	if err := copyTree(o.repo, cp); err != nil {
		res.Skipped = append(res.Skipped, "copy failed: "+err.Error())
		return res
	}
	runOn := func() string {
		cmd := exec.Command(exe, "check", o.id, "--tier", "quick", "--repo", cp, "--no-evidence")
		cmd.Env = append(os.Environ(), "VERIF_TIER=quick")
		cmd.Run()
		switch cmd.ProcessState.ExitCode() {
		case 0:
			return "PASS"
		case 1:
			return "VIOLATION"
		}
		return "TOOL-ERROR"
	}
	note := func(name, expect, got string) {
		res.Ran++
		if got == expect {
			res.AsExpected++
		} else {
			res.Unexpected = append(res.Unexpected, fmt.Sprintf("%s: expected %s, got %s", name, expect, got))
		}
	}
	// sed mutants
	if b, err := os.ReadFile(filepath.Join(verifDir, "selftest", "mutants.tsv")); err == nil {
		for _, l := range strings.Split(string(b), "\n") {
			f := strings.Split(l, "\t")
			if len(f) < 5 || f[0] != o.id || f[3] == "SKIP" {
				continue
			}
			target := filepath.Join(cp, f[1])
			orig, err := os.ReadFile(target)
			if err != nil {
				res.Skipped = append(res.Skipped, f[4]+": file missing")
				continue
			}
			exec.Command("sed", "-i", f[2], target).Run()
			now, _ := os.ReadFile(target)
			if string(now) == string(orig) {
				res.Skipped = append(res.Skipped, f[4]+": mutation does not apply to this tree")
				continue
			}
			note("mutant: "+f[4], f[3], runOn())
			os.WriteFile(target, orig, 0o644)
		}
	}
	// seeded changes
	metas, _ := filepath.Glob(filepath.Join(verifDir, "seeded", "*", "meta.json"))
	for _, m := range metas {
		var md struct {
			Property string `json:"property"`
			Detected bool   `json:"detected_by_check"`
		}
		b, _ := os.ReadFile(m)
		if json.Unmarshal(b, &md) != nil || md.Property != o.id {
			continue
		}
		name := filepath.Base(filepath.Dir(m))
		patch := filepath.Join(filepath.Dir(m), "patch.diff")
		ap := exec.Command("git", "apply", patch)
		ap.Dir = cp
		if err := ap.Run(); err != nil {
			res.Skipped = append(res.Skipped, name+": patch does not apply to this tree")
			continue
		}
		expect := "VIOLATION"
		if !md.Detected {
			expect = "PASS"
		}
		note("seeded: "+name, expect, runOn())
		rv := exec.Command("git", "apply", "-R", patch)
		rv.Dir = cp
		rv.Run()
	}
	return res
}
