package main

import (
	"encoding/json"
	"fmt"
	"os"
	"path/filepath"
	"sort"
	"strings"
)

type Report struct {
	prog    *Program
	id      string
	tier    string
	seed    int
	results []*FuncResult
	obs     []*Obligation
	vac     []*Obligation
	loadS   float64
	wallS   float64
	cfg     SolverCfg
	corpus  *corpusResult
	// contracts whose function does not exist any more (all properties / this property)
	orphans, orphansServing []string
}

func buildReport(p *Program, o checkOpts, results []*FuncResult, obs, vac []*Obligation, seed int, loadS, wallS float64, cfg SolverCfg) *Report {
	return &Report{prog: p, id: o.id, tier: o.tier, seed: seed, results: results, obs: obs, vac: vac, loadS: loadS, wallS: wallS, cfg: cfg}
}

type replayFile struct {
	Property    string            `json:"property"`
	Obligation  string            `json:"obligation"`
	Function    string            `json:"function"`
	Position    string            `json:"position"`
	Goal        string            `json:"goal"`
	Kind        string            `json:"kind"`
	Verdict     string            `json:"verdict"`
	Solver      string            `json:"solver"`
	SolverNotes string            `json:"solver_notes"`
	Path        string            `json:"path"`
	SMTFile     string            `json:"smt_file"`
	Model       map[string]string `json:"model,omitempty"`
	RawOutput   string            `json:"solver_output"`
	Replay      *replayOutcome    `json:"replay,omitempty"`
	SMT         string            `json:"smt,omitempty"`
}

func (r *Report) emit(o checkOpts, toolErrs []string) int {
	kfs := loadKnownFindings()
	discharged := 0
	var failed []*Obligation
	byBackend := map[string]int{}
	solverTime := 0.0
	for _, ob := range r.obs {
		solverTime += ob.TimeS
		if ob.Verdict == "unsat" {
			discharged++
			byBackend[ob.Solver]++
		} else {
			failed = append(failed, ob)
		}
	}
	// group failures by obligation name (several paths may fail the same named obligation)
	failedByName := map[string][]*Obligation{}
	var failedNames []string
	for _, ob := range failed {
		if _, ok := failedByName[ob.Name]; !ok {
			failedNames = append(failedNames, ob.Name)
		}
		failedByName[ob.Name] = append(failedByName[ob.Name], ob)
	}
	sort.Strings(failedNames)
	unboundFuncs := map[string]bool{}
	for _, ob := range failed {
		// only clauses that are assumed further on (invariants, preconditions) can make other obligations fail by being absent
		if ob.Verdict == "unbound" && (ob.Kind == "inv-init" || ob.Kind == "inv-keep" || ob.Kind == "pre") {
			unboundFuncs[ob.Func] = true
		}
	}
	violations := 0
	decided := 0 // failed obligations that a solver refuted or could not discharge (as opposed to clauses that do not bind)
	var knownHit []string
	var violationLines []string
	disagree := false
	for _, name := range failedNames {
		obl := failedByName[name][0]
		for _, c := range failedByName[name] {
			if c.Verdict == "sat" && obl.Verdict != "sat" {
				obl = c
			}
			if c.Verdict == "refuted" && obl.Verdict != "sat" && obl.Verdict != "refuted" {
				obl = c
			}
			if c.Verdict == "disagree" {
				disagree = true
			}
		}
		known := false
		for _, kf := range kfs {
			if kf.Kind == "finding" && kf.Property == r.id && kf.Obligation == name {
				known = true
				fmt.Printf("KNOWN-FINDING: property=%s %s  %s\n", r.id, name, kf.Text)
				knownHit = append(knownHit, name)
			}
		}
		if known {
			continue
		}
		violations++
		// A clause that does not bind is neither checked nor assumed, so an obligation of the same function that merely
		// could not be discharged may be a consequence of the missing clause; the same holds when a function under
		// contract has disappeared (its body lives on somewhere without its contract) and for an obligation reached
		// through a loop that has no invariant (nothing is known after such a loop). Only a refutation counts there.
		needsContract := unboundFuncs[obl.Func] || len(r.orphans) > 0 || strings.Contains(obl.PathDesc, "(no-invariant)")
		isDecided := obl.Verdict != "unbound" && !(obl.Verdict != "sat" && obl.Verdict != "refuted" && needsContract)
		if isDecided {
			decided++
		}
		rp := r.writeReplay(o, obl)
		line := fmt.Sprintf("VIOLATION property=%s replay=%s", r.id, rp.path)
		if !rp.reproduced {
			line += " no-failing-input-found"
		}
		if isDecided {
			// obligations that are merely undecided (see above) are listed as failed, but only the decided ones are
			// reported as violations of the property
			violationLines = append(violationLines, line)
		}
		why := ""
		if obl.Unbound != "" {
			why = " reason: " + obl.Unbound
		}
		fmt.Printf("FAILED-OBLIGATION: %s verdict=%s goal: %s @%s:%d path[%s]%s\n", name, obl.Verdict, obl.GoalText, shortFile(obl.Pos.Filename), obl.Pos.Line, obl.PathDesc, why)
	}
	stale := []string{}
	for _, kf := range kfs {
		if kf.Kind == "finding" && kf.Property == r.id {
			hit := false
			for _, n := range knownHit {
				if n == kf.Obligation {
					hit = true
				}
			}
			if !hit {
				stale = append(stale, kf.Obligation)
			}
		}
	}
	if o.verbose {
		for _, ob := range r.obs {
			fmt.Println("  ", describeObl(ob), ob.SolverNotes)
		}
		for _, v := range r.vac {
			fmt.Println("   vacuity:", v.Name, v.Verdict, v.SolverNotes)
		}
	}
	// When the only thing wrong is that contract clauses no longer bind to the code (a local they name was renamed, a
	// loop they describe is gone) and every obligation that could be generated is discharged, nothing shows that the
	// property is violated: the run is undecided. That is reported as a tool error (exit 2), not as a violation.
	if violations > 0 && decided == 0 {
		toolErrs = append(toolErrs, fmt.Sprintf("%d contract clause(s) do not bind to the current code or could not be discharged next to such a clause, a vanished function or a loop without invariant, and no obligation is refuted: the property is undecided until the contracts are migrated", violations))
		violationLines = nil
		violations = 0
	}
	if violations > 0 {
		violations = decided
		for _, e := range r.orphansServing {
			fmt.Println("NOTE (the violation stands without it):", e)
		}
	} else {
		toolErrs = append(toolErrs, r.orphansServing...)
	}
	nf := 0
	for _, fr := range r.results {
		nf++
		_ = fr
	}
	fmt.Printf("gvc %s tier=%s: %d functions under contract, %d obligations, %d discharged, %d known findings, %d violations, solver %.1fs, wall %.1fs\n",
		r.id, r.tier, nf, len(r.obs), discharged, len(knownHit), violations, solverTime, r.wallS)
	// a failed obligation is assumed after it is reported, so code after it can become unreachable: cover-guard failures
	// that accompany a violation are consequences of it, not tool errors (a violation always has a satisfiable path)
	if violations > 0 {
		var rest []string
		for _, e := range toolErrs {
			if strings.HasPrefix(e, "vacuity guard failed: no satisfiable path reaches") {
				fmt.Println("NOTE (follows from the violation):", e)
				continue
			}
			rest = append(rest, e)
		}
		toolErrs = rest
	}
	for _, e := range toolErrs {
		fmt.Println("TOOL-ERROR:", e)
	}
	if !o.noWrite {
		r.writeEvidence(discharged, byBackend, solverTime, knownHit, stale, violations, toolErrs)
	}
	if len(toolErrs) > 0 || disagree {
		if disagree {
			fmt.Println("TOOL-ERROR: solvers disagree on an obligation")
		}
		// tool errors are never reported as violations
		return 2
	}
	for _, l := range violationLines {
		fmt.Println(l)
	}
	if violations > 0 {
		return 1
	}
	return 0
}

type replayPath struct {
	path       string
	reproduced bool
}

func (r *Report) writeReplay(o checkOpts, ob *Obligation) replayPath {
	dir := filepath.Join(verifDir, "replays", r.id)
	if o.noWrite {
		dir = filepath.Join(os.TempDir(), fmt.Sprintf("gvc-replays-%d", os.Getpid()), r.id)
	}
	os.MkdirAll(dir, 0o755)
	name := sanitize(ob.Name)
	if len(name) > 150 {
		name = name[:150]
	}
	path := filepath.Join(dir, name+".json")
	rf := replayFile{Property: r.id, Obligation: ob.Name, Function: ob.Func, Position: fmt.Sprintf("%s:%d", shortFile(ob.Pos.Filename), ob.Pos.Line),
		Goal: ob.GoalText, Kind: ob.Kind, Verdict: ob.Verdict, Solver: ob.Solver, SolverNotes: ob.SolverNotes, Path: ob.PathDesc, SMTFile: ob.SMTFile, RawOutput: truncate(ob.Model, 20000)}
	if ob.Verdict == "sat" {
		rf.Model = parseModel(ob.Model)
	}
	if ob.SMTFile != "" {
		if q, err := os.ReadFile(ob.SMTFile); err == nil && len(q) < 2<<20 {
			rf.SMT = string(q)
		}
	}
	out := r.tryReplay(o, ob, &rf)
	rf.Replay = out
	b, _ := json.MarshalIndent(rf, "", " ")
	os.WriteFile(path, b, 0o644)
	return replayPath{path: path, reproduced: out != nil && out.Reproduced}
}

// parseModel extracts (define-fun name () Sort value) entries of nullary symbols.
func parseModel(out string) map[string]string {
	m := map[string]string{}
	lines := strings.Split(out, "\n")
	for i := 0; i < len(lines); i++ {
		l := strings.TrimSpace(lines[i])
		if !strings.HasPrefix(l, "(define-fun ") {
			continue
		}
		rest := l[len("(define-fun "):]
		sp := strings.Index(rest, " ")
		if sp < 0 {
			continue
		}
		name := rest[:sp]
		rest = strings.TrimSpace(rest[sp:])
		if !strings.HasPrefix(rest, "()") {
			continue
		}
		rest = strings.TrimSpace(rest[2:])
		// sort then value, possibly on the next line
		var val string
		fields := strings.SplitN(rest, " ", 2)
		if len(fields) == 2 && strings.TrimSpace(fields[1]) != "" && !strings.HasPrefix(fields[0], "(") {
			val = strings.TrimSpace(fields[1])
		} else if i+1 < len(lines) {
			val = strings.TrimSpace(lines[i+1])
			i++
		}
		val = strings.TrimSuffix(val, ")")
		if len(val) > 200 {
			continue
		}
		m[name] = val
	}
	return m
}

func (r *Report) writeEvidence(discharged int, byBackend map[string]int, solverTime float64, knownHit, stale []string, violations int, toolErrs []string) {
	knownInstances := 0
	for _, ob := range r.obs {
		if ob.Verdict != "unsat" {
			for _, k := range knownHit {
				if k == ob.Name {
					knownInstances++
				}
			}
		}
	}
	type fnInfo struct {
		Name        string `json:"name"`
		Pos         string `json:"pos"`
		Paths       int    `json:"paths"`
		Obligations int    `json:"obligations"`
	}
	var fns []fnInfo
	abstr := map[string]bool{}
	trivialSafe := 0
	for _, fr := range r.results {
		n := 0
		for _, ob := range fr.Obls {
			if hasProp(ob.Props, r.id) {
				n++
			}
		}
		fns = append(fns, fnInfo{fr.Name, shortFile(fr.Pos), fr.Paths, n})
		for _, a := range fr.Abstr {
			abstr[a] = true
		}
		trivialSafe += fr.Trivial
	}
	var abstrL []string
	for a := range abstr {
		abstrL = append(abstrL, a)
	}
	sort.Strings(abstrL)
	var trusted []string
	for k := range r.prog.specUses {
		trusted = append(trusted, "extern spec: "+k)
	}
	sort.Strings(trusted)
	trusted = append(trusted, "native models (gvc/native.go): http.Header Get/Set/Add/Del/Values, strings.ToLower/Contains/HasPrefix/CutPrefix/TrimPrefix, CanonicalHeaderKey, sync.Mutex, math.Log2 on constants, rand.Float64 in [0,1), builtins append/copy/delete/close/len/cap")
	trusted = append(trusted, "go/packages + go/ssa (x/tools v0.29.0, NaiveForm) as the representation of /repo's source", "gvc's encoding of SSA instructions (DESIGN.md Appendix B)", "SMT solvers: z3 5.1.0 (z3-new), z3 4.8.12, cvc5 1.0")
	var unknown []string
	for k, n := range r.prog.unknownCalls {
		unknown = append(unknown, fmt.Sprintf("%s (x%d): no spec, results fresh and heap forgotten", k, n))
	}
	sort.Strings(unknown)
	// samples: three obligations written out
	type sample struct {
		Name    string  `json:"name"`
		Goal    string  `json:"goal"`
		Kind    string  `json:"kind"`
		SMTSize int     `json:"smt_bytes"`
		Verdict string  `json:"verdict"`
		Solver  string  `json:"solver"`
		TimeS   float64 `json:"time_s"`
		Pos     string  `json:"pos"`
	}
	var samples []sample
	sorted := append([]*Obligation{}, r.obs...)
	sort.SliceStable(sorted, func(i, j int) bool { return sorted[i].Size > sorted[j].Size })
	for i, ob := range sorted {
		if i >= 3 {
			break
		}
		samples = append(samples, sample{ob.Name, ob.GoalText, ob.Kind, ob.Size, ob.Verdict, ob.Solver, ob.TimeS, fmt.Sprintf("%s:%d", shortFile(ob.Pos.Filename), ob.Pos.Line)})
	}
	slow := append([]*Obligation{}, r.obs...)
	sort.SliceStable(slow, func(i, j int) bool { return slow[i].TimeS > slow[j].TimeS })
	var slowest []string
	for i, ob := range slow {
		if i >= 5 {
			break
		}
		slowest = append(slowest, fmt.Sprintf("%s %.2fs %s", ob.Name, ob.TimeS, ob.Solver))
	}
	vacCounts := map[string]int{}
	for _, v := range r.vac {
		vacCounts[v.Verdict]++
	}
	var initNotes []string
	for _, ns := range r.prog.initNotes {
		initNotes = append(initNotes, ns...)
	}
	sort.Strings(initNotes)
	assumptions := []string{
		"partial correctness: termination and blocking are not proved",
		"goroutine interleavings are not modelled beyond the lock/shared/ownership disciplines (DESIGN.md 2.7); effects of a spawned function are applied at the spawn point",
		"select is a nondeterministic choice among its cases; no fairness",
		"library behaviour enters only through the extern specs and native models listed under trusted_base",
		"append always reallocates; aliasing through spare slice capacity is not modelled",
	}
	assumptions = append(assumptions, abstrL...)
	assumptions = append(assumptions, unknown...)
	ev := map[string]interface{}{
		"property_id": r.id,
		"tier":        r.tier,
		"seed":        r.seed,
		"level":       "proof",
		"coverage": map[string]interface{}{
			"obligations":              len(r.obs) - knownInstances,
			"discharged":               discharged,
			"known_finding_obligation_instances_not_counted": knownInstances,
			"checker_cmd":              fmt.Sprintf("bin/gvc check %s --tier %s", r.id, r.tier),
			"trusted_base":             trusted,
			"functions_under_contract": fns,
			"by_backend":               byBackend,
			"solver_time_s":            solverTime,
			"slowest":                  slowest,
			"vacuity_guards":           vacCounts,
			"samples":                  samples,
			"known_findings_hit":       knownHit,
			"stale_known_findings":     stale,
			"trivially_true_safety_conditions_not_counted": trivialSafe,
			"package_init_facts":                           initNotes,
			"tool_errors":                                  toolErrs,
			"load_s":                                       r.loadS,
			"per_query_timeout_s":                          r.cfg.TimeoutS,
			"must_fail_corpus":                             r.corpus,
		},
		"assumptions": assumptions,
		"wall_s":      r.wallS,
		"violations":  violations,
	}
	os.MkdirAll(filepath.Join(verifDir, "evidence"), 0o755)
	b, _ := json.MarshalIndent(ev, "", " ")
	os.WriteFile(filepath.Join(verifDir, "evidence", r.id+".json"), b, 0o644)
}
