package main

import (
	"fmt"
	"go/token"
	"go/types"
	"sort"
	"strings"

	"golang.org/x/tools/go/ssa"
)

// runInit symbolically executes a package initialiser and returns entry facts about globals that are never
// assigned outside it (and, for maps and slices, never updated through the global).
func (p *Program) runInit(sp *ssa.Package) (facts []*T, notes []string) {
	fn := sp.Func("init")
	if fn == nil || len(fn.Blocks) == 0 {
		return nil, nil
	}
	defer func() {
		if r := recover(); r != nil {
			if debugPanics {
				panic(r)
			}
			facts = nil
			notes = append(notes, fmt.Sprintf("init of %s could not be evaluated: %v", sp.Pkg.Path(), r))
		}
	}()
	x := &Exec{prog: p, fn: fn, maxPaths: 50, ordinals: map[string]int{}, initMode: true}
	st := &State{X: x, Heap: map[string]*T{}, HeapS: map[string]Sort{}, Ghost: map[string]Val{}, AsOf: map[string]*T{}}
	x.entry = st
	st.heapGet("Alloc", ArrSort(SInt, SBool))
	fr := &Frame{fn: fn, regs: map[ssa.Value]Val{}, cells: map[*ssa.Alloc]Val{}, active: map[*ssa.BasicBlock]bool{}, loops: p.loopsOf(fn)}
	x.step(st, fr, fn.Blocks[0], 0, nil)
	if x.initFinal == nil || len(x.errs) > 0 {
		notes = append(notes, fmt.Sprintf("init of %s: no final state (%v)", sp.Pkg.Path(), x.errs))
		return nil, notes
	}
	fin := x.initFinal
	mutable := p.mutableGlobals(sp)
	var names []string
	for n, m := range sp.Members {
		if _, ok := m.(*ssa.Global); ok {
			names = append(names, n)
		}
	}
	sort.Strings(names)
	alloc0 := Sym("Alloc!0", ArrSort(SInt, SBool))
	for i, r := range x.initRefs {
		facts = append(facts, Select(alloc0, r), Gt(r, IntLit(0)), Eq(App("refkind", SInt, r), IntLit(0)))
		for _, q := range x.initRefs[i+1:] {
			facts = append(facts, Ne(r, q))
		}
	}
	sel := func(arr *T, ref *T) *T { return x.selectInit(arr, ref) }
	for _, n := range names {
		g := sp.Members[n].(*ssa.Global)
		if strings.HasPrefix(n, "init$") {
			continue
		}
		if mutable[g] {
			notes = append(notes, "global "+n+" is assigned outside init: no entry facts")
			continue
		}
		gn, gs := globalNames(g)
		for _, name := range gn {
			p.immutableGlobal[name] = true
		}
		t := deref(g.Type())
		var vals []*T
		ok := true
		for k, name := range gn {
			v, has := fin.Heap[name]
			if !has {
				ok = false
				break
			}
			facts = append(facts, Eq(Sym(name+"!0", gs[k]), v))
			vals = append(vals, v)
		}
		if !ok {
			continue
		}
		switch u := t.Underlying().(type) {
		case *types.Map:
			if mutable2 := p.globalContentsMutable(sp, g); mutable2 {
				notes = append(notes, "map global "+n+" is updated outside init: no content facts")
				continue
			}
			dom, domS, mv, mvS := mapArrays(u)
			if a, has := fin.Heap[dom]; has {
				facts = append(facts, Eq(Select(Sym(dom+"!0", domS), vals[0]), sel(a, vals[0])))
			}
			for k, name := range mv {
				if a, has := fin.Heap[name]; has {
					facts = append(facts, Eq(Select(Sym(name+"!0", mvS[k]), vals[0]), sel(a, vals[0])))
				}
			}
			notes = append(notes, "map global "+n+": contents fixed by init")
		case *types.Slice:
			if mutable2 := p.globalContentsMutable(sp, g); mutable2 {
				continue
			}
			en, es := elemArrays(u.Elem())
			for k, name := range en {
				if a, has := fin.Heap[name]; has {
					facts = append(facts, Eq(Select(Sym(name+"!0", es[k]), vals[0]), sel(a, vals[0])))
				}
			}
			notes = append(notes, "slice global "+n+": contents fixed by init")
		}
	}
	// facts must not mention non-entry heap symbols other than init-local fresh symbols; path condition of init is added too
	for _, c := range fin.PC {
		if strings.Contains(c.String(), "Alloc!") {
			continue // allocation bookkeeping of the init run itself
		}
		facts = append(facts, c)
	}
	return facts, notes
}

// selectInit reads a row of an init-final array, treating distinct init allocations as distinct.
func (x *Exec) selectInit(arr, ref *T) *T {
	for arr.Op == "store" {
		if arr.Args[1].String() == ref.String() {
			return arr.Args[2]
		}
		if x.isInitRef(arr.Args[1]) && x.isInitRef(ref) {
			arr = arr.Args[0]
			continue
		}
		break
	}
	return Select(arr, ref)
}

func (x *Exec) isInitRef(t *T) bool {
	for _, r := range x.initRefs {
		if r == t || r.String() == t.String() {
			return true
		}
	}
	return false
}

// mutableGlobals: globals stored to outside the synthesized init function.
func (p *Program) mutableGlobals(sp *ssa.Package) map[*ssa.Global]bool {
	out := map[*ssa.Global]bool{}
	for _, fn := range p.allFuncs(sp.Pkg.Path()) {
		if fn.Name() == "init" && fn.Parent() == nil && fn.Synthetic != "" {
			continue
		}
		for _, b := range fn.Blocks {
			for _, ins := range b.Instrs {
				if s, ok := ins.(*ssa.Store); ok {
					if g, ok := s.Addr.(*ssa.Global); ok {
						out[g] = true
					}
				}
				// address taken (passed to a call or stored) makes it mutable as well
				if c, ok := ins.(ssa.CallInstruction); ok {
					for _, a := range c.Common().Args {
						if g, ok := a.(*ssa.Global); ok {
							out[g] = true
						}
					}
				}
			}
		}
	}
	return out
}

// globalContentsMutable: a map/slice global whose contents are written through the global outside init.
func (p *Program) globalContentsMutable(sp *ssa.Package, g *ssa.Global) bool {
	isLoadOfG := func(v ssa.Value) bool {
		u, ok := v.(*ssa.UnOp)
		return ok && u.Op == token.MUL && u.X == g
	}
	for _, fn := range p.allFuncs(sp.Pkg.Path()) {
		if fn.Name() == "init" && fn.Parent() == nil && fn.Synthetic != "" {
			continue
		}
		for _, b := range fn.Blocks {
			for _, ins := range b.Instrs {
				switch n := ins.(type) {
				case *ssa.MapUpdate:
					if isLoadOfG(n.Map) {
						return true
					}
				case *ssa.Store:
					if ia, ok := n.Addr.(*ssa.IndexAddr); ok && isLoadOfG(ia.X) {
						return true
					}
				case ssa.CallInstruction:
					c := n.Common()
					if bi, ok := c.Value.(*ssa.Builtin); ok && (bi.Name() == "delete" || bi.Name() == "copy" || bi.Name() == "append") {
						if len(c.Args) > 0 && isLoadOfG(c.Args[0]) {
							if bi.Name() != "append" {
								return true
							}
						}
					} else {
						// passing the map/slice to a function that is not a known reader: treat conservatively for repo callees
						for _, a := range c.Args {
							if isLoadOfG(a) {
								if f := c.StaticCallee(); f != nil && p.isRepoFn(f) {
									return true
								}
							}
						}
					}
				}
			}
		}
	}
	return false
}
