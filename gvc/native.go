package main

import (
	"fmt"
	"go/token"
	"go/types"
	"math"
	"math/big"
	"net/textproto"
	"strings"

	"golang.org/x/tools/go/ssa"
)

func canonicalHeaderKey(s string) string { return textproto.CanonicalMIMEHeaderKey(s) }

// ---------------------------------------------------------------------------
// builtins

func (x *Exec) execBuiltin(st *State, fr *Frame, ci calleeInfo, n *ssa.Call) Val {
	for _, a := range n.Common().Args {
		x.guardCheck(st, fr, a, n.Pos())
	}
	v := x.execBuiltinVals(st, fr, ci, n.Pos(), n)
	v.Typ = n.Type()
	return v
}

func (x *Exec) execBuiltinVals(st *State, fr *Frame, ci calleeInfo, pos token.Pos, n *ssa.Call) Val {
	args := ci.args
	switch ci.builtin {
	case "len":
		a := args[0]
		switch u := a.Typ.Underlying().(type) {
		case *types.Slice:
			return intVal(a.C[2])
		case *types.Basic:
			return intVal(st.slen(a.T()))
		case *types.Map:
			return intVal(Ite(Eq(a.T(), IntLit(0)), IntLit(0), st.mapLen(a.T(), u)))
		case *types.Chan:
			l := Select(st.heapGet("ChLen", ArrSort(SInt, SInt)), a.T())
			st.Assume(Ge(l, IntLit(0)))
			return intVal(l)
		case *types.Pointer:
			if at, ok := u.Elem().Underlying().(*types.Array); ok {
				return intVal(IntLit(at.Len()))
			}
		case *types.Array:
			return intVal(IntLit(u.Len()))
		}
		panic("len of " + a.Typ.String())
	case "cap":
		a := args[0]
		if _, ok := a.Typ.Underlying().(*types.Slice); ok {
			return intVal(a.C[3])
		}
		c := Select(st.heapGet("ChCap", ArrSort(SInt, SInt)), a.T())
		return intVal(c)
	case "append":
		return x.builtinAppend(st, args[0], args[1])
	case "copy":
		return x.builtinCopy(st, args[0], args[1])
	case "delete":
		m, k := args[0], args[1]
		mt := m.Typ.Underlying().(*types.Map)
		st.mapDelete(m.T(), x.mapKey(st, k), mt)
		return Val{}
	case "close":
		var chV ssa.Value
		if ci.common != nil && len(ci.common.Args) > 0 {
			chV = ci.common.Args[0]
		}
		x.execCloseV(st, fr, args[0], pos, chV)
		return Val{}
	case "print", "println":
		return Val{}
	case "ssa:deferstack":
		return Val{C: []*T{IntLit(0)}}
	case "recover":
		return Val{Typ: types.NewInterfaceType(nil, nil), C: []*T{IntLit(0)}}
	case "min", "max":
		a, b := args[0].T(), args[1].T()
		if ci.builtin == "min" {
			return Val{Typ: args[0].Typ, C: []*T{Ite(Le(a, b), a, b)}}
		}
		return Val{Typ: args[0].Typ, C: []*T{Ite(Ge(a, b), a, b)}}
	}
	x.errorf("unsupported builtin %s", ci.builtin)
	st.Dead = true
	return Val{}
}

// builtinAppend models append(s, t...) as a fresh backing array holding the concatenation.
func (x *Exec) builtinAppend(st *State, s, t Val) Val {
	sl := s.Typ.Underlying().(*types.Slice)
	et := sl.Elem()
	var tC []*T    // content arrays of t
	var tOff, tLen *T
	if _, isStr := t.Typ.Underlying().(*types.Basic); isStr {
		tC = []*T{App("sbytes", ArrSort(SInt, SInt), t.T())}
		tOff, tLen = IntLit(0), st.slen(t.T())
	} else {
		tC = st.elemsOf(t.C[0], et)
		tOff, tLen = t.C[1], t.C[2]
	}
	sC := st.elemsOf(s.C[0], et)
	r := st.newRef("app")
	newLen := Add(s.C[2], tLen)
	newCap := st.X.fresh("cap", SInt)
	st.Assume(Ge(newCap, newLen))
	lay := Layout(et)
	var contents []*T
	for i, c := range lay {
		arr := st.X.fresh("appc", ArrSort(SInt, c.S))
		k := Sym("k!ap", SInt)
		if l, ok := s.C[2].IsIntLit(); !(ok && l == 0) {
			st.Assume(Forall([]*T{k}, Implies(And(Le(IntLit(0), k), Lt(k, s.C[2])), Eq(Select(arr, k), Select(sC[i], Add(s.C[1], k))))))
		}
		if l, ok := tLen.IsIntLit(); ok && l <= 4 {
			for j := int64(0); j < l; j++ {
				st.Assume(Eq(Select(arr, Add(s.C[2], IntLit(j))), Select(tC[i], Add(tOff, IntLit(j)))))
			}
		} else {
			st.Assume(Forall([]*T{k}, Implies(And(Le(s.C[2], k), Lt(k, Add(s.C[2], tLen))), Eq(Select(arr, k), Select(tC[i], Add(tOff, Sub(k, s.C[2])))))))
		}
		contents = append(contents, arr)
	}
	st.setElemsOf(r, et, contents)
	x.noteAbstraction("append always reallocates (aliasing through spare capacity not modelled)")
	return Val{Typ: s.Typ, C: []*T{r, IntLit(0), newLen, newCap}}
}

func (x *Exec) builtinCopy(st *State, dst, src Val) Val {
	dl := dst.Typ.Underlying().(*types.Slice)
	et := dl.Elem()
	var sC []*T
	var sOff, sLen *T
	if _, isStr := src.Typ.Underlying().(*types.Basic); isStr {
		sC = []*T{App("sbytes", ArrSort(SInt, SInt), src.T())}
		sOff, sLen = IntLit(0), st.slen(src.T())
	} else {
		sC = st.elemsOf(src.C[0], et)
		sOff, sLen = src.C[1], src.C[2]
	}
	n := Ite(Le(dst.C[2], sLen), dst.C[2], sLen)
	nn := st.X.fresh("ncopy", SInt)
	st.Assume(Eq(nn, n))
	dC := st.elemsOf(dst.C[0], et)
	var contents []*T
	for i, c := range Layout(et) {
		arr := st.X.fresh("cpy", ArrSort(SInt, c.S))
		k := Sym("k!cp", SInt)
		inRange := And(Le(dst.C[1], k), Lt(k, Add(dst.C[1], nn)))
		st.Assume(Forall([]*T{k}, Eq(Select(arr, k),
			Ite(inRange, Select(sC[i], Add(sOff, Sub(k, dst.C[1]))), Select(dC[i], k)))))
		contents = append(contents, arr)
	}
	// nil destination: nothing is written (n == 0); guard the heap update
	st.setElemsOf(dst.C[0], et, contents)
	return intVal(nn)
}

// ---------------------------------------------------------------------------
// channels

func (x *Exec) isSharedChan(v ssa.Value) bool {
	// a channel loaded from a field of a type declared `shared`
	u, ok := v.(*ssa.UnOp)
	if !ok || u.Op != token.MUL {
		return false
	}
	fa, ok := u.X.(*ssa.FieldAddr)
	if !ok {
		return false
	}
	named, ok := deref(fa.X.Type()).(*types.Named)
	if !ok {
		return false
	}
	tc := x.prog.typeContract(named)
	return tc != nil && tc.Shared
}

func (x *Exec) chanClosed(st *State, ch *T, v ssa.Value) *T {
	if v != nil && x.isSharedChan(v) {
		// rely/guarantee with the weakest rely: another goroutine may have closed it at any time
		c := st.X.fresh("sharedClosed", SBool)
		cur := Select(st.heapGet("ChClosed", ArrSort(SInt, SBool)), ch)
		st.Assume(Implies(cur, c)) // monotone
		return c
	}
	return Select(st.heapGet("ChClosed", ArrSort(SInt, SBool)), ch)
}

func (x *Exec) execSend(st *State, fr *Frame, ch, v Val, pos token.Pos, chV ssa.Value) {
	x.hookEvent(st, fr, "send", x.chanName(chV), []Val{ch, v}, nil, pos)
	closed := x.chanClosed(st, ch.T(), chV)
	x.safe(st, "chan-send", Or(Eq(ch.T(), IntLit(0)), Not(closed)), pos, "send on closed channel")
	ln := st.heapGet("ChLen", ArrSort(SInt, SInt))
	st.heapSet("ChLen", Store(ln, ch.T(), Add(Select(ln, ch.T()), IntLit(1))))
	x.hookAfter(st, fr, "send", x.chanName(chV), []Val{ch, v}, Val{}, pos)
}

func (x *Exec) execClose(st *State, fr *Frame, ch Val, pos token.Pos) {
	x.execCloseV(st, fr, ch, pos, nil)
}

func (x *Exec) execCloseV(st *State, fr *Frame, ch Val, pos token.Pos, chV ssa.Value) {
	x.hookEvent(st, fr, "close", x.chanName(chV), []Val{ch}, nil, pos)
	closed := x.chanClosed(st, ch.T(), chV)
	x.safe(st, "chan-close", And(Ne(ch.T(), IntLit(0)), Not(closed)), pos, "close of nil or closed channel")
	cl := st.heapGet("ChClosed", ArrSort(SInt, SBool))
	st.heapSet("ChClosed", Store(cl, ch.T(), True))
	x.hookAfter(st, fr, "close", x.chanName(chV), []Val{ch}, Val{}, pos)
}

func (x *Exec) chanName(v ssa.Value) string {
	if v == nil {
		return ""
	}
	// a channel obtained from a call is named after the callee: <-ctx.Done() is a receive on "Done"
	if c, ok := v.(*ssa.Call); ok {
		if c.Call.IsInvoke() {
			return c.Call.Method.Name()
		}
		if sc := c.Call.StaticCallee(); sc != nil {
			return sc.Name()
		}
		return x.chanName(c.Call.Value)
	}
	if u, ok := v.(*ssa.UnOp); ok && u.Op == token.MUL {
		if fa, ok := u.X.(*ssa.FieldAddr); ok {
			stru := deref(fa.X.Type()).Underlying().(*types.Struct)
			return stru.Field(fa.Field).Name()
		}
		if a, ok := u.X.(*ssa.Alloc); ok {
			return a.Comment
		}
		if fv, ok := u.X.(*ssa.FreeVar); ok {
			return fv.Name()
		}
	}
	return v.Name()
}

// recvValue produces the result of a receive: (value, ok).
func (x *Exec) recvValue(st *State, fr *Frame, ch Val, chV ssa.Value, pos token.Pos) (Val, *T) {
	ct := ch.Typ.Underlying().(*types.Chan)
	x.hookEvent(st, fr, "recv", x.chanName(chV), []Val{ch}, nil, pos)
	ok := st.X.fresh("recvok", SBool)
	closed := x.chanClosed(st, ch.T(), chV)
	st.Assume(Implies(Not(ok), closed))
	// a buffered value is delivered (ok) even when the channel is closed; a closed and empty channel yields the zero
	// value with ok == false at once; an open empty channel blocks until a value is sent (ok)
	lnArr := st.heapGet("ChLen", ArrSort(SInt, SInt))
	ln := Select(lnArr, ch.T())
	st.Assume(Implies(Gt(ln, IntLit(0)), ok))
	st.Assume(Implies(And(closed, Le(ln, IntLit(0))), Not(ok)))
	st.heapSet("ChLen", Store(lnArr, ch.T(), Ite(Gt(ln, IntLit(0)), Sub(ln, IntLit(1)), ln)))
	fv := st.freshVal(ct.Elem(), "recv")
	if isPointerLike(ct.Elem()) && len(fv.C) == 1 {
		st.assumeAllocated(fv.C[0])
	}
	z := x.zeroVal(ct.Elem())
	out := Val{Typ: ct.Elem()}
	for i := range fv.C {
		out.C = append(out.C, Ite(ok, fv.C[i], z.C[i]))
	}
	ret := Val{Typ: types.NewTuple(types.NewVar(0, nil, "", ct.Elem()), types.NewVar(0, nil, "", types.Typ[types.Bool])), C: append(append([]*T{}, out.C...), ok)}
	x.hookAfter(st, fr, "recv", x.chanName(chV), []Val{ch}, ret, pos)
	return out, ok
}

func (x *Exec) execRecv(st *State, fr *Frame, n *ssa.UnOp) {
	ch := x.valueOf(st, fr, n.X)
	v, ok := x.recvValue(st, fr, ch, n.X, n.Pos())
	if n.CommaOk {
		fr.regs[n] = Val{Typ: n.Type(), C: append(append([]*T{}, v.C...), ok)}
	} else {
		fr.regs[n] = v
	}
}

func (x *Exec) execSelect(st *State, fr *Frame, n *ssa.Select, b *ssa.BasicBlock, idx int, prev *ssa.BasicBlock) {
	tp := n.Type().(*types.Tuple)
	mk := func(st *State, fr *Frame, chosen int, recvOK *T, vals map[int]Val) {
		out := Val{Typ: tp}
		out.C = append(out.C, IntLit(int64(chosen)), recvOK)
		ri := 0
		for i, s := range n.States {
			if s.Dir != types.RecvOnly {
				continue
			}
			et := tp.At(2 + ri).Type()
			if v, ok := vals[i]; ok {
				out.C = append(out.C, v.C...)
			} else {
				out.C = append(out.C, x.zeroVal(et).C...)
			}
			ri++
		}
		fr.regs[n] = out
		st.tr("select:%d", chosen)
		x.step(st, fr, b, idx+1, prev)
	}
	total := len(n.States)
	if !n.Blocking {
		total++
	}
	for i, s := range n.States {
		var cst *State
		var cfr *Frame
		if i == total-1 {
			cst, cfr = st, fr
		} else {
			cst, cfr = st.Clone(), fr.clone()
		}
		ch := x.valueOf(cst, cfr, s.Chan)
		if s.Dir == types.SendOnly {
			x.execSend(cst, cfr, ch, x.valueOf(cst, cfr, s.Send), s.Pos, s.Chan)
			mk(cst, cfr, i, False, nil)
		} else {
			v, ok := x.recvValue(cst, cfr, ch, s.Chan, s.Pos)
			mk(cst, cfr, i, ok, map[int]Val{i: v})
		}
	}
	if !n.Blocking {
		x.hookEvent(st, fr, "default", "", nil, nil, n.Pos())
		x.hookAfter(st, fr, "default", "", nil, Val{}, n.Pos())
		mk(st, fr, -1, False, nil)
	}
}

// ---------------------------------------------------------------------------
// floating point model

var flEps = new(big.Rat).SetFrac(big.NewInt(1), new(big.Int).Lsh(big.NewInt(1), 53))

type ratIv struct{ lo, hi *big.Rat }

func (x *Exec) setBounds(t *T, lo, hi *big.Rat) {
	if x.bounds == nil {
		x.bounds = map[string]ratIv{}
	}
	x.bounds[t.String()] = ratIv{lo, hi}
}

func litRat(t *T) (*big.Rat, bool) {
	if len(t.Args) != 0 {
		return nil, false
	}
	s := t.Op
	neg := false
	if strings.HasPrefix(s, "(- ") && strings.HasSuffix(s, ")") {
		neg = true
		s = s[3 : len(s)-1]
	}
	var r *big.Rat
	if strings.HasPrefix(s, "(/ ") {
		parts := strings.Fields(strings.TrimSuffix(strings.TrimPrefix(s, "(/ "), ")"))
		if len(parts) != 2 {
			return nil, false
		}
		a, ok1 := new(big.Rat).SetString(strings.TrimSuffix(parts[0], ".0"))
		b, ok2 := new(big.Rat).SetString(strings.TrimSuffix(parts[1], ".0"))
		if !ok1 || !ok2 || b.Sign() == 0 {
			return nil, false
		}
		r = new(big.Rat).Quo(a, b)
	} else {
		var ok bool
		r, ok = new(big.Rat).SetString(strings.TrimSuffix(s, ".0"))
		if !ok {
			return nil, false
		}
	}
	if neg {
		r.Neg(r)
	}
	return r, true
}

// boundsOf computes constant interval bounds of a Real/Int term, using recorded facts and the path condition.
func (x *Exec) boundsOf(st *State, t *T) (ratIv, bool) {
	if r, ok := litRat(t); ok {
		return ratIv{r, r}, true
	}
	if b, ok := x.bounds[t.String()]; ok {
		return b, true
	}
	switch t.Op {
	case "to_real":
		return x.boundsOf(st, t.Args[0])
	case "+", "-", "*":
		if len(t.Args) == 2 {
			a, ok1 := x.boundsOf(st, t.Args[0])
			b, ok2 := x.boundsOf(st, t.Args[1])
			if ok1 && ok2 {
				switch t.Op {
				case "+":
					return ratIv{new(big.Rat).Add(a.lo, b.lo), new(big.Rat).Add(a.hi, b.hi)}, true
				case "-":
					return ratIv{new(big.Rat).Sub(a.lo, b.hi), new(big.Rat).Sub(a.hi, b.lo)}, true
				case "*":
					ps := []*big.Rat{new(big.Rat).Mul(a.lo, b.lo), new(big.Rat).Mul(a.lo, b.hi), new(big.Rat).Mul(a.hi, b.lo), new(big.Rat).Mul(a.hi, b.hi)}
					lo, hi := ps[0], ps[0]
					for _, p := range ps[1:] {
						if p.Cmp(lo) < 0 {
							lo = p
						}
						if p.Cmp(hi) > 0 {
							hi = p
						}
					}
					return ratIv{lo, hi}, true
				}
			}
		}
	case "ite":
		a, ok1 := x.boundsOf(st, t.Args[1])
		b, ok2 := x.boundsOf(st, t.Args[2])
		if ok1 && ok2 {
			lo, hi := a.lo, a.hi
			if b.lo.Cmp(lo) < 0 {
				lo = b.lo
			}
			if b.hi.Cmp(hi) > 0 {
				hi = b.hi
			}
			return ratIv{lo, hi}, true
		}
	}
	// scan the path condition for atomic bounds on exactly this term
	var lo, hi *big.Rat
	ts := t.String()
	for _, c := range st.PC {
		if len(c.Args) != 2 {
			continue
		}
		a, b := c.Args[0], c.Args[1]
		switch c.Op {
		case "<=", "<":
			if a.String() == ts {
				if r, ok := litRat(b); ok && (hi == nil || r.Cmp(hi) < 0) {
					hi = r
				}
			}
			if b.String() == ts {
				if r, ok := litRat(a); ok && (lo == nil || r.Cmp(lo) > 0) {
					lo = r
				}
			}
		case ">=", ">":
			if a.String() == ts {
				if r, ok := litRat(b); ok && (lo == nil || r.Cmp(lo) > 0) {
					lo = r
				}
			}
			if b.String() == ts {
				if r, ok := litRat(a); ok && (hi == nil || r.Cmp(hi) < 0) {
					hi = r
				}
			}
		case "=":
			if a.String() == ts {
				if r, ok := litRat(b); ok {
					return ratIv{r, r}, true
				}
			}
		}
	}
	if lo != nil && hi != nil {
		return ratIv{lo, hi}, true
	}
	return ratIv{}, false
}

// flRound applies the standard rounding model fl(v) = v(1+δ), |δ| ≤ 2^-53.
func (x *Exec) flRound(st *State, v *T) *T {
	if r, ok := litRat(v); ok {
		// constants are already float64 values produced by the compiler
		_ = r
		return v
	}
	r := st.X.fresh("fl", SReal)
	one := big.NewRat(1, 1)
	up := RealLit(new(big.Rat).Add(one, flEps))
	dn := RealLit(new(big.Rat).Sub(one, flEps))
	st.Assume(Ite(Ge(v, RealLit(new(big.Rat))),
		And(Le(App("*", SReal, dn, v), r), Le(r, App("*", SReal, up, v))),
		And(Le(App("*", SReal, up, v), r), Le(r, App("*", SReal, dn, v)))))
	if b, ok := x.boundsOf(st, v); ok {
		lo := new(big.Rat).Set(b.lo)
		hi := new(big.Rat).Set(b.hi)
		if lo.Sign() >= 0 {
			lo.Mul(lo, new(big.Rat).Sub(one, flEps))
		} else {
			lo.Mul(lo, new(big.Rat).Add(one, flEps))
		}
		if hi.Sign() >= 0 {
			hi.Mul(hi, new(big.Rat).Add(one, flEps))
		} else {
			hi.Mul(hi, new(big.Rat).Sub(one, flEps))
		}
		x.setBounds(r, lo, hi)
		// range obligation: stays far from overflow and in the normal range when non-zero is not needed for soundness of the bound
	}
	x.noteAbstraction("float64 arithmetic: real arithmetic with relative rounding error 2^-53 per operation")
	return r
}

// realMul returns a*b; products of two non-constant terms are relaxed linearly using constant interval bounds.
func (x *Exec) realMul(st *State, a, b *T) *T {
	if _, ok := litRat(a); ok {
		return App("*", SReal, a, b)
	}
	if _, ok := litRat(b); ok {
		return App("*", SReal, a, b)
	}
	w := st.X.fresh("prod", SReal)
	ba, oka := x.boundsOf(st, a)
	bb, okb := x.boundsOf(st, b)
	if !oka || !okb {
		x.noteAbstraction("product of two unbounded float terms: result unconstrained")
		return w
	}
	mul := func(c *big.Rat, t *T) *T { return App("*", SReal, RealLit(c), t) }
	sub := func(p, q *T) *T { return App("-", SReal, p, q) }
	add := func(p, q *T) *T { return App("+", SReal, p, q) }
	c := func(p, q *big.Rat) *T { return RealLit(new(big.Rat).Mul(p, q)) }
	// McCormick envelopes
	st.Assume(Ge(w, sub(add(mul(ba.lo, b), mul(bb.lo, a)), c(ba.lo, bb.lo))))
	st.Assume(Ge(w, sub(add(mul(ba.hi, b), mul(bb.hi, a)), c(ba.hi, bb.hi))))
	st.Assume(Le(w, sub(add(mul(ba.hi, b), mul(bb.lo, a)), c(ba.hi, bb.lo))))
	st.Assume(Le(w, sub(add(mul(ba.lo, b), mul(bb.hi, a)), c(ba.lo, bb.hi))))
	// sign-based scaling bounds (exact when one factor has a fixed sign)
	if ba.lo.Sign() >= 0 {
		st.Assume(And(Le(mul(bb.lo, a), w), Le(w, mul(bb.hi, a))))
	}
	if bb.lo.Sign() >= 0 {
		st.Assume(And(Le(mul(ba.lo, b), w), Le(w, mul(ba.hi, b))))
	}
	if ba.hi.Sign() <= 0 {
		st.Assume(And(Le(mul(bb.hi, a), w), Le(w, mul(bb.lo, a))))
	}
	if bb.hi.Sign() <= 0 {
		st.Assume(And(Le(mul(ba.hi, b), w), Le(w, mul(ba.lo, b))))
	}
	prod := ratIv{}
	ps := []*big.Rat{new(big.Rat).Mul(ba.lo, bb.lo), new(big.Rat).Mul(ba.lo, bb.hi), new(big.Rat).Mul(ba.hi, bb.lo), new(big.Rat).Mul(ba.hi, bb.hi)}
	prod.lo, prod.hi = ps[0], ps[0]
	for _, p := range ps[1:] {
		if p.Cmp(prod.lo) < 0 {
			prod.lo = p
		}
		if p.Cmp(prod.hi) > 0 {
			prod.hi = p
		}
	}
	x.setBounds(w, prod.lo, prod.hi)
	x.noteAbstraction("product of two non-constant float terms: sound linear relaxation (McCormick + sign scaling) over constant interval bounds")
	return w
}

func (x *Exec) floatToInt(st *State, v Val, to types.Type, pos token.Pos) Val {
	bits, signed, _ := intBits(to)
	lo, hi := intRange(bits, signed)
	f := v.T()
	// Go leaves out-of-range conversions implementation-defined: require the value to fit
	x.safe(st, "fconv", And(Gt(f, App("to_real", SReal, Sub(lo, IntLit(1)))), Lt(f, App("to_real", SReal, Add(hi, IntLit(1))))), pos, "float→int conversion out of range")
	r := st.X.fresh("trunc", SInt)
	rr := App("to_real", SReal, r)
	zero := RealLit(new(big.Rat))
	one := RealLit(big.NewRat(1, 1))
	st.Assume(Ite(Ge(f, zero),
		And(Le(rr, f), Lt(f, App("+", SReal, rr, one))),
		And(Lt(App("-", SReal, rr, one), f), Le(f, rr))))
	out := Val{Typ: to, C: []*T{r}}
	st.assumeTypeInv(out)
	if b, ok := x.boundsOf(st, f); ok {
		x.setBounds(r, new(big.Rat).Sub(b.lo, big.NewRat(1, 1)), new(big.Rat).Add(b.hi, big.NewRat(1, 1)))
	}
	return out
}

// ---------------------------------------------------------------------------
// native models of library functions

func (x *Exec) nativeCall(st *State, fr *Frame, ci calleeInfo, pos token.Pos) (Val, bool) {
	a := ci.args
	switch ci.key {
	case "(*sync.Mutex).Lock", "(*sync.RWMutex).Lock":
		h := st.heapGet("Held", ArrSort(SInt, SBool))
		st.heapSet("Held", Store(h, a[0].T(), True))
		x.lockAcquired(st, fr, a[0].T())
		return Val{}, true
	case "(*sync.Mutex).Unlock", "(*sync.RWMutex).Unlock":
		h := st.heapGet("Held", ArrSort(SInt, SBool))
		x.safe(st, "unlock", Select(h, a[0].T()), pos, "unlock of unlocked mutex")
		x.lockReleased(st, fr, a[0].T(), pos)
		st.heapSet("Held", Store(h, a[0].T(), False))
		return Val{}, true
	case "http.CanonicalHeaderKey", "textproto.CanonicalMIMEHeaderKey":
		return strVal(st.strFn("canon", a[0].T())), true
	case "strings.ToLower":
		return strVal(st.strFn("lower", a[0].T())), true
	case "strings.Contains":
		return boolVal(st.contains(a[0].T(), a[1].T())), true
	case "strings.HasPrefix":
		return boolVal(st.hasPrefix(a[0].T(), a[1].T())), true
	case "strings.CutPrefix":
		// (after, found): found == hasPrefix(s, p); s == p + after when found, after == s otherwise
		found := st.hasPrefix(a[0].T(), a[1].T())
		after := App("cutPrefix", SStr, a[0].T(), a[1].T())
		res := Ite(found, after, a[0].T())
		st.Assume(Implies(found, Eq(st.sconcat(a[1].T(), after), a[0].T())))
		return Val{Typ: ci.sig.Results(), C: []*T{res, found}}, true
	case "strings.TrimPrefix":
		found := st.hasPrefix(a[0].T(), a[1].T())
		after := App("cutPrefix", SStr, a[0].T(), a[1].T())
		st.Assume(Implies(found, Eq(st.sconcat(a[1].T(), after), a[0].T())))
		return strVal(Ite(found, after, a[0].T())), true
	case "(http.Header).Get", "(textproto.MIMEHeader).Get":
		return x.headerGet(st, a[0], a[1].T()), true
	case "(http.Header).Values", "(textproto.MIMEHeader).Values":
		return x.headerValues(st, a[0], a[1].T()), true
	case "(http.Header).Set", "(textproto.MIMEHeader).Set":
		x.headerSet(st, a[0], a[1].T(), a[2].T(), pos)
		return Val{}, true
	case "(http.Header).Add", "(textproto.MIMEHeader).Add":
		x.headerAdd(st, a[0], a[1].T(), a[2].T(), pos)
		return Val{}, true
	case "(http.Header).Del", "(textproto.MIMEHeader).Del":
		mt := a[0].Typ.Underlying().(*types.Map)
		st.mapDelete(a[0].T(), st.strFn("canon", a[1].T()), mt)
		return Val{}, true
	case "fmt.Sprintf", "fmt.Errorf":
		// result is a function of the format and the boxed arguments (up to 4); Errorf results are non-nil
		if l, ok := a[1].C[2].IsIntLit(); ok && l <= 4 {
			args := []*T{a[0].T()}
			for i := int64(0); i < l; i++ {
				args = append(args, st.loadElem(a[1].C[0], Add(a[1].C[1], IntLit(i)), types.NewInterfaceType(nil, nil)).T())
			}
			if ci.key == "fmt.Sprintf" {
				r := App(fmt.Sprintf("sprintf_%d", l), SStr, args...)
				return strVal(r), true
			}
			r := App(fmt.Sprintf("errorf_%d", l), SInt, args...)
			st.Assume(Ne(r, IntLit(0)))
			return Val{Typ: ci.sig.Results().At(0).Type(), C: []*T{r}}, true
		}
	case "json.Unmarshal":
		// json.Unmarshal(data, &v): the pointee of v holds a fresh, unconstrained value afterwards; nothing else changes
		if ci.common != nil && len(ci.common.Args) == 2 {
			if mi, ok := ci.common.Args[1].(*ssa.MakeInterface); ok {
				if pt, ok := mi.X.Type().Underlying().(*types.Pointer); ok {
					pv := x.valueOf(st, fr, mi.X)
					x.growAlloc(st)
					nv := st.freshVal(pt.Elem(), "json")
					x.assumeJSONAllocated(st, pt.Elem(), nv)
					x.execStore(st, fr, pv, nv, pos, mi.X)
					errV := st.freshVal(ci.sig.Results(), "jsonerr")
					x.noteAbstraction("json.Unmarshal: the target holds an unconstrained value of its type afterwards")
					return Val{Typ: ci.sig.Results().At(0).Type(), C: errV.C}, true
				}
			}
		}
	case "math.Log2":
		if r, ok := litRat(a[0].T()); ok {
			f, _ := r.Float64()
			res := new(big.Rat)
			res.SetFloat64(math.Log2(f))
			return Val{Typ: types.Typ[types.Float64], C: []*T{RealLit(res)}}, true
		}
	case "(time.Duration).Nanoseconds":
		return Val{Typ: types.Typ[types.Int64], C: a[0].C}, true
	case "rand.Float64":
		r := st.X.fresh("rand", SReal)
		st.Assume(And(Le(RealLit(new(big.Rat)), r), Lt(r, RealLit(big.NewRat(1, 1)))))
		x.setBounds(r, new(big.Rat), big.NewRat(1, 1))
		return Val{Typ: types.Typ[types.Float64], C: []*T{r}}, true
	}
	return Val{}, false
}

// lockOwner finds the declared type whose mutex field the sub-reference mu denotes.
func (x *Exec) lockOwner(mu *T) (tc *TypeContract, named *types.Named, base *T) {
	if !strings.HasPrefix(mu.Op, "sub_") || len(mu.Args) != 1 {
		return nil, nil, nil
	}
	for _, c := range x.prog.contracts.Types {
		n := x.prog.namedType(c.PkgPath, c.Name)
		if n == nil {
			continue
		}
		stru, ok := n.Underlying().(*types.Struct)
		if !ok {
			continue
		}
		for i := 0; i < stru.NumFields(); i++ {
			if isStruct(stru.Field(i).Type()) && subRefName(n, i) == mu.Op {
				return c, n, mu.Args[0]
			}
		}
	}
	return nil, nil, nil
}

// lockAcquired: state guarded by this mutex may have been changed by other goroutines while it was not held;
// it satisfies the declared type invariant (which every Unlock re-establishes).
func (x *Exec) lockAcquired(st *State, fr *Frame, mu *T) {
	tc, named, base := x.lockOwner(mu)
	if tc == nil {
		return
	}
	stru := named.Underlying().(*types.Struct)
	for field, m := range tc.Guarded {
		mi, fi := -1, -1
		for i := 0; i < stru.NumFields(); i++ {
			if stru.Field(i).Name() == m {
				mi = i
			}
			if stru.Field(i).Name() == field {
				fi = i
			}
		}
		if mi < 0 || fi < 0 || subRefName(named, mi) != mu.Op {
			continue
		}
		fv := st.loadFieldOf(base, named, fi)
		if mt, ok := fv.Typ.Underlying().(*types.Map); ok {
			dom, domS, vals, valS := mapArrays(mt)
			x.havocLoc(st, Loc{Arrays: append([]string{dom}, vals...), Sorts: append([]Sort{domS}, valS...), Ref: fv.T()})
		}
	}
	env := x.envFor(st, x.topFrame(fr))
	env.vars["self"] = Val{Typ: types.NewPointer(named), C: []*T{base}}
	for _, c := range tc.Invariants {
		g, err := env.EvalBool(c.Expr)
		if err != nil {
			x.errorf("%s:%d: %v", c.File, c.Line, err)
			continue
		}
		st.Assume(g)
	}
}

// lockReleased: the type invariant of the guarded state must hold when the lock is given up.
func (x *Exec) lockReleased(st *State, fr *Frame, mu *T, pos token.Pos) {
	tc, named, base := x.lockOwner(mu)
	if tc == nil {
		return
	}
	env := x.envFor(st, x.topFrame(fr))
	env.vars["self"] = Val{Typ: types.NewPointer(named), C: []*T{base}}
	for i, c := range tc.Invariants {
		g, err := env.EvalBool(c.Expr)
		if err != nil {
			x.errorf("%s:%d: %v", c.File, c.Line, err)
			continue
		}
		lbl := c.Label
		if lbl == "" {
			lbl = fmt.Sprintf("t%d", i+1)
		}
		st.oblige("inv-type", tc.Name+":"+lbl, g, pos, c.Expr, propsOr(c.Props, x.safetyProps()))
	}
}

func (x *Exec) headerGet(st *State, h Val, key *T) Val {
	mt := h.Typ.Underlying().(*types.Map)
	k := st.strFn("canon", key)
	has := And(Ne(h.T(), IntLit(0)), st.mapHas(h.T(), k, mt))
	vs := st.mapGet(h.T(), k, mt)
	st.assumeTypeInv(vs)
	first := st.loadElem(vs.C[0], vs.C[1], types.Typ[types.String])
	return strVal(Ite(And(has, Gt(vs.C[2], IntLit(0))), first.T(), x.prog.strLit("")))
}

func (x *Exec) headerValues(st *State, h Val, key *T) Val {
	mt := h.Typ.Underlying().(*types.Map)
	k := st.strFn("canon", key)
	has := And(Ne(h.T(), IntLit(0)), st.mapHas(h.T(), k, mt))
	vs := st.mapGet(h.T(), k, mt)
	st.assumeTypeInv(vs)
	out := Val{Typ: mt.Elem()}
	for i := range vs.C {
		out.C = append(out.C, Ite(has, vs.C[i], IntLit(0)))
	}
	return out
}

func (x *Exec) headerSet(st *State, h Val, key, value *T, pos token.Pos) {
	mt := h.Typ.Underlying().(*types.Map)
	x.safe(st, "mapnil", Ne(h.T(), IntLit(0)), pos, "assignment to entry in nil map")
	k := st.strFn("canon", key)
	r := st.newRef("hv")
	st.storeElem(r, IntLit(0), types.Typ[types.String], strVal(value))
	st.mapSet(h.T(), k, mt, Val{Typ: mt.Elem(), C: []*T{r, IntLit(0), IntLit(1), IntLit(1)}})
}

func (x *Exec) headerAdd(st *State, h Val, key, value *T, pos token.Pos) {
	mt := h.Typ.Underlying().(*types.Map)
	x.safe(st, "mapnil", Ne(h.T(), IntLit(0)), pos, "assignment to entry in nil map")
	k := st.strFn("canon", key)
	has := st.mapHas(h.T(), k, mt)
	cur := st.mapGet(h.T(), k, mt)
	st.assumeTypeInv(cur)
	old := Val{Typ: mt.Elem()}
	for i := range cur.C {
		old.C = append(old.C, Ite(has, cur.C[i], IntLit(0)))
	}
	// one-element slice holding value
	tr := st.newRef("hv1")
	st.storeElem(tr, IntLit(0), types.Typ[types.String], strVal(value))
	one := Val{Typ: mt.Elem(), C: []*T{tr, IntLit(0), IntLit(1), IntLit(1)}}
	nv := x.builtinAppend(st, old, one)
	st.mapSet(h.T(), k, mt, nv)
}

var _ = fmt.Sprintf


func (x *Exec) assumeJSONAllocated(st *State, t types.Type, v Val) {
	switch u := t.Underlying().(type) {
	case *types.Struct:
		off := 0
		for i := 0; i < u.NumFields(); i++ {
			n := len(Layout(u.Field(i).Type()))
			x.assumeJSONAllocated(st, u.Field(i).Type(), Val{Typ: u.Field(i).Type(), C: v.C[off : off+n]})
			off += n
		}
	case *types.Slice:
		st.assumeAllocated(v.C[0])
	case *types.Pointer, *types.Map, *types.Interface:
		if len(v.C) == 1 {
			st.assumeAllocated(v.C[0])
		}
	}
}
