package main

import (
	"os"
	"runtime/debug"
	"fmt"
	"go/token"
	"go/types"
	"sort"
	"strings"

	"golang.org/x/tools/go/ssa"
)

// Obligation is one proof duty: assumptions ⊢ goal.
type Obligation struct {
	Name     string // stable name (see DESIGN 2.4)
	Kind     string // post, inv-init, inv-keep, pre, mon, frame, guard, own, safe
	Label    string
	Func     string
	Props    []string
	Pos      token.Position
	Assume   []*T
	Goal     *T
	GoalText string // contract-level text of the goal
	PathDesc string
	PathN    int
	Vacuity  bool // a vacuity guard: expected to be SAT (i.e. not discharged)
	Unbound  string // the clause could not be interpreted against the current code (reason); never sent to a solver
	// results
	Verdict string // unsat (discharged), sat (refuted), unknown
	SolverNotes string
	CandidateModel string // model of the quantifier-free weakening (not a proof of anything; guides replay)
	Solver  string
	TimeS   float64
	Model   string
	SMTFile string
	Size    int
}

// State is a symbolic path state.
type State struct {
	X       *Exec
	Heap    map[string]*T // heap arrays and globals (current version)
	HeapS   map[string]Sort
	PC      []*T // path condition
	Ghost   map[string]Val
	Held    map[string]bool // syntactic lock tracking is done symbolically; unused
	Trace   []string
	Dead    bool
	// allocation epochs: heap array name -> Alloc array term as of last havoc (values in array are allocated wrt it)
	AsOf map[string]*T
	pendingRefs []*T // references introduced by a havoc, assumed allocated-or-nil at the next flush
}

func (s *State) Clone() *State {
	n := &State{X: s.X, HeapS: s.HeapS, Dead: s.Dead}
	n.Heap = make(map[string]*T, len(s.Heap))
	for k, v := range s.Heap {
		n.Heap[k] = v
	}
	n.AsOf = make(map[string]*T, len(s.AsOf))
	for k, v := range s.AsOf {
		n.AsOf[k] = v
	}
	n.PC = s.PC[:len(s.PC):len(s.PC)]
	n.Ghost = make(map[string]Val, len(s.Ghost))
	for k, v := range s.Ghost {
		n.Ghost[k] = v
	}
	n.Trace = s.Trace[:len(s.Trace):len(s.Trace)]
	return n
}

// knows reports whether the path condition syntactically contains c (true) or its negation (false).
func (s *State) knows(c *T) (bool, bool) {
	cs := c.String()
	ns := Not(c).String()
	for i := len(s.PC) - 1; i >= 0; i-- {
		ps := s.PC[i].String()
		if ps == cs {
			return true, true
		}
		if ps == ns {
			return true, false
		}
	}
	return false, false
}

func (s *State) Assume(t *T) {
	if t == nil || t == True {
		return
	}
	if t == False {
		s.Dead = true
	}
	if t.Op == "and" {
		for _, a := range t.Args {
			s.Assume(a)
		}
		return
	}
	if dbg := os.Getenv("GVC_DEBUG_ASSUME"); dbg != "" && strings.HasPrefix(t.String(), dbg) {
		fmt.Fprintf(os.Stderr, "assume %s\n%s\n", t.String(), debug.Stack())
	}
	s.PC = append(s.PC, t)
}

// heapGet returns the current term for a heap array, creating the entry symbol on first use.
func (s *State) heapGet(name string, srt Sort) *T {
	if t, ok := s.Heap[name]; ok {
		return t
	}
	s.HeapS[name] = srt
	// entry version: shared symbol name_0 so that old() state agrees
	t := Sym(name+"!0", srt)
	s.Heap[name] = t
	s.X.wfArray(name, t)
	// also record in the entry snapshot, if any
	if s.X != nil && s.X.entry != nil && s != s.X.entry {
		if _, ok := s.X.entry.Heap[name]; !ok {
			s.X.entry.Heap[name] = t
		}
	}
	return t
}

func (s *State) heapSet(name string, t *T) {
	s.HeapS[name] = t.S
	s.Heap[name] = t
}

// havocHeap replaces a heap array by a fresh symbol.
func (s *State) havocHeap(name string) {
	srt, ok := s.HeapS[name]
	if !ok {
		return
	}
	s.Heap[name] = s.X.fresh(name, srt)
	s.X.wfArray(name, s.Heap[name])
	s.AsOf[name] = s.Heap["Alloc"]
}

// havocAllHeap forgets everything about the heap except allocation monotonicity.
func (s *State) havocAllHeap(why string) {
	// HeapS (shared by all states of this run) knows every array ever materialised, also those first touched on a
	// scratch copy of this state: all of them are forgotten here
	names := make([]string, 0, len(s.HeapS))
	for k := range s.HeapS {
		names = append(names, k)
	}
	sort.Strings(names)
	for _, k := range names {
		if k == "Alloc" || k == "Held" {
			continue // lock state is balanced by every callee (checked on the callee's side)
		}
		if strings.HasPrefix(k, "Ghost_") && !strings.HasPrefix(k, "Ghost_heap_") {
			continue
		}
		if strings.HasPrefix(k, "G_") && s.X.prog.immutableGlobal[k] {
			continue // package-level variable never assigned outside init()
		}
		s.havocHeap(k)
	}
	// allocation: new array is a superset of the old
	old := s.heapGet("Alloc", ArrSort(SInt, SBool))
	nw := s.X.fresh("Alloc", ArrSort(SInt, SBool))
	r := Sym("r!a", SInt)
	s.Assume(Forall([]*T{r}, Implies(Select(old, r), Select(nw, r))))
	s.Heap["Alloc"] = nw
	s.X.noteAbstraction("havoc-all: " + why)
}

type Exec struct {
	relied map[string]map[string]bool // callee contract key -> labels of postconditions assumed at call sites
	outerVars map[string]Val // variables of enclosing functions named by clauses but not captured by this closure
	unboundSeen map[string]bool
	noAssume map[string]bool // obligations (func#kind:label) of other properties that failed: checked but not assumed afterwards
	prog      *Program
	fn        *ssa.Function
	contract  *FuncContract
	obls      []*Obligation
	freshCtr  int
	entry     *State
	paths     int
	maxPaths  int
	ordinals  map[string]int
	abstr     map[string]bool
	errs      []string
	strLits   map[string]*T
	inlineDep int
	retCover  int
	loopCover map[int]bool
	safeTrivial int
	steps     int
	bounds    map[string]ratIv
	sharedChans map[string]bool
	vacuity   []*Obligation
	initMode  bool
	initFinal *State
	initRefs  []*T
}

func (x *Exec) fresh(base string, s Sort) *T {
	x.freshCtr++
	if x.initMode {
		// symbols of the package initialiser appear in the entry facts of every function: keep them apart from the function's own
		return Sym(fmt.Sprintf("%s!i%d", strings.TrimSuffix(base, "!0"), x.freshCtr), s)
	}
	return Sym(fmt.Sprintf("%s!%d", strings.TrimSuffix(base, "!0"), x.freshCtr), s)
}

// wfArray records the heap well-formedness fact that slice lengths stored anywhere are non-negative.
// The facts are kept per array version and added to every obligation that mentions the version.
func (x *Exec) wfArray(name string, t *T) {
	if !t.S.IsArray() {
		return // package-level variables are scalars, not heap arrays
	}
	if strings.HasSuffix(name, "_base") && strings.HasSuffix(t.Op, "!0") {
		// the entry heap is closed under allocation: slices stored anywhere at entry have nil or entry-allocated backing arrays
		x.prog.mu.Lock()
		defer x.prog.mu.Unlock()
		if _, ok := x.prog.defAxioms["wf:"+t.Op]; !ok {
			r := Sym("r!wf", SInt)
			a0 := Sym("Alloc!0", ArrSort(SInt, SBool))
			_, vs := t.S.ArrParts()
			if vs.IsArray() {
				ks, _ := vs.ArrParts()
				k := Sym("k!wf", ks)
				sel := Select(Select(t, r), k)
				x.prog.defAxioms["wf:"+t.Op] = Forall([]*T{r, k}, pattern(Implies(Select(a0, r), Or(Eq(sel, IntLit(0)), Select(a0, sel))), sel))
			} else {
				sel := Select(t, r)
				x.prog.defAxioms["wf:"+t.Op] = Forall([]*T{r}, pattern(Implies(Select(a0, r), Or(Eq(sel, IntLit(0)), Select(a0, sel))), sel))
			}
		}
		return
	}
	if strings.HasPrefix(name, "MD_") {
		// the nil map has no keys
		x.prog.mu.Lock()
		defer x.prog.mu.Unlock()
		if _, ok := x.prog.defAxioms["wf:"+t.Op]; !ok {
			_, vs := t.S.ArrParts()
			if vs.IsArray() {
				ks, _ := vs.ArrParts()
				k := Sym("k!wf", ks)
				sel := Select(Select(t, IntLit(0)), k)
				x.prog.defAxioms["wf:"+t.Op] = Forall([]*T{k}, pattern(Not(sel), sel))
			}
		}
		return
	}
	if !strings.HasSuffix(name, "_len") {
		return
	}
	x.prog.mu.Lock()
	defer x.prog.mu.Unlock()
	if _, ok := x.prog.defAxioms["wf:"+t.Op]; ok {
		return
	}
	r := Sym("r!wf", SInt)
	_, vs := t.S.ArrParts()
	if vs.IsArray() {
		ks, _ := vs.ArrParts()
		k := Sym("k!wf", ks)
		sel := Select(Select(t, r), k)
		x.prog.defAxioms["wf:"+t.Op] = Forall([]*T{r, k}, pattern(Le(IntLit(0), sel), sel))
	} else {
		sel := Select(t, r)
		x.prog.defAxioms["wf:"+t.Op] = Forall([]*T{r}, pattern(Le(IntLit(0), sel), sel))
	}
}

func (x *Exec) noteAbstraction(s string) {
	if x.abstr == nil {
		x.abstr = map[string]bool{}
	}
	x.abstr[s] = true
}

func (x *Exec) errorf(format string, args ...interface{}) {
	x.errs = append(x.errs, fmt.Sprintf(format, args...))
}

// oblige records an obligation under the current path condition.
func (s *State) oblige(kind, label string, goal *T, pos token.Pos, text string, props []string) {
	if s.Dead {
		return
	}
	x := s.X
	if goal == True {
		// trivially discharged; still count it
	}
	fname := x.prog.shortName(x.fn)
	base := fmt.Sprintf("%s#%s:%s", fname, kind, label)
	x.ordinals[base]++
	ob := &Obligation{
		Name:     base, // ordinal appended after grouping by source order (see finishNames)
		Kind:     kind,
		Label:    label,
		Func:     fname,
		Props:    props,
		Pos:      x.prog.fset.Position(pos),
		Assume:   s.PC[:len(s.PC):len(s.PC)],
		Goal:     goal,
		GoalText: text,
		PathDesc: strings.Join(s.Trace, " "),
	}
	x.obls = append(x.obls, ob)
}

// assumeAfter continues under the assumption that a just-emitted obligation holds, unless that obligation belongs to
// another property and is known to fail (assuming it would make everything downstream vacuous).
func (s *State) assumeAfter(kind, label string, g *T) {
	x := s.X
	if x.noAssume != nil && x.noAssume[fmt.Sprintf("%s#%s:%s", x.prog.shortName(x.fn), kind, label)] {
		return
	}
	s.Assume(g)
}

// unbound records a contract clause that no longer binds to the code (an identifier, loop or field it names is gone):
// the obligation it stood for cannot be generated, so it is reported as not discharged under the clause's own label.
func (s *State) unbound(kind, label string, props []string, pos token.Pos, text string, err error) {
	if s.Dead {
		return
	}
	x := s.X
	fname := x.prog.shortName(x.fn)
	base := fmt.Sprintf("%s#%s:%s", fname, kind, label)
	if x.unboundSeen == nil {
		x.unboundSeen = map[string]bool{}
	}
	if x.unboundSeen[base] {
		return
	}
	x.unboundSeen[base] = true
	x.obls = append(x.obls, &Obligation{Name: base, Kind: kind, Label: label, Func: fname, Props: props, Pos: x.prog.fset.Position(pos),
		Goal: False, GoalText: text, PathDesc: strings.Join(s.Trace, " "), Unbound: err.Error()})
}

func (s *State) tr(format string, args ...interface{}) {
	s.Trace = append(s.Trace, fmt.Sprintf(format, args...))
}

// newRef allocates a fresh object reference distinct from everything allocated so far.
func (s *State) newRef(hint string) *T {
	r := s.X.fresh("new_"+hint, SInt)
	al := s.heapGet("Alloc", ArrSort(SInt, SBool))
	s.Assume(Gt(r, IntLit(0)))
	s.Assume(Not(Select(al, r)))
	s.Assume(Eq(App("refkind", SInt, r), IntLit(0)))
	s.heapSet("Alloc", Store(al, r, True))
	if s.X.initMode {
		s.X.initRefs = append(s.X.initRefs, r)
	}
	return r
}

// assumeAllocated records that a pointer-like value obtained from the pre-state is allocated (or nil).
func (s *State) assumeAllocated(p *T) {
	al := s.heapGet("Alloc", ArrSort(SInt, SBool))
	s.Assume(Or(Eq(p, IntLit(0)), Select(al, p)))
}

// Type invariants of a value (integer ranges, slice well-formedness, string lengths).
func (s *State) assumeTypeInv(v Val) {
	if v.Typ == nil {
		return
	}
	s.assumeTypeInvComps(v.Typ, v.C)
}

func (s *State) assumeTypeInvComps(t types.Type, c []*T) {
	switch u := t.Underlying().(type) {
	case *types.Basic:
		if bits, signed, ok := intBits(t); ok && len(c) == 1 {
			lo, hi := intRange(bits, signed)
			s.Assume(And(Le(lo, c[0]), Le(c[0], hi)))
		}
	case *types.Slice:
		if len(c) == 4 {
			// the Go runtime cannot allocate more than 2^48 bytes on 64-bit platforms: offsets and capacities stay below it
			maxInt := IntLit(1 << 48)
			s.Assume(And(Le(IntLit(0), c[1]), Le(IntLit(0), c[2]), Le(c[2], c[3]), Le(Add(c[1], c[3]), maxInt),
				Implies(Eq(c[0], IntLit(0)), Eq(c[3], IntLit(0))), Ge(c[0], IntLit(0))))
		}
	case *types.Tuple:
		off := 0
		for i := 0; i < u.Len(); i++ {
			n := len(Layout(u.At(i).Type()))
			if off+n <= len(c) {
				s.assumeTypeInvComps(u.At(i).Type(), c[off:off+n])
			}
			off += n
		}
	case *types.Struct:
		off := 0
		for i := 0; i < u.NumFields(); i++ {
			n := len(Layout(u.Field(i).Type()))
			if off+n <= len(c) {
				s.assumeTypeInvComps(u.Field(i).Type(), c[off:off+n])
			}
			off += n
		}
	}
}
