package main

import (
	"fmt"
	"math/big"
	"sort"
	"strings"
)

// Sort is an SMT sort name: "Int", "Bool", "Real", "Str", or an array sort.
type Sort string

const (
	SInt  Sort = "Int"
	SBool Sort = "Bool"
	SReal Sort = "Real"
	SStr  Sort = "Str"
)

func ArrSort(k, v Sort) Sort { return Sort("(Array " + string(k) + " " + string(v) + ")") }

func (s Sort) IsArray() bool { return strings.HasPrefix(string(s), "(Array ") }

// ArrParts returns the key and value sorts of an array sort.
func (s Sort) ArrParts() (Sort, Sort) {
	str := string(s)
	str = strings.TrimSuffix(strings.TrimPrefix(str, "(Array "), ")")
	// split at top-level space
	depth := 0
	for i, c := range str {
		switch c {
		case '(':
			depth++
		case ')':
			depth--
		case ' ':
			if depth == 0 {
				return Sort(str[:i]), Sort(str[i+1:])
			}
		}
	}
	panic("bad array sort " + string(s))
}

// T is an SMT term.
type T struct {
	Op   string // operator or symbol name; for literals the literal text
	Args []*T
	S    Sort
	// Binder info for quantifiers: Op == "forall"/"exists", Vars bound, Args[0] body.
	Vars []*T
	str  string
	// pattern-annotated body (printed from str); kept for declaration collection
	patBody *T
	patTerm *T
}

func (t *T) String() string {
	if t.str != "" {
		return t.str
	}
	var sb strings.Builder
	t.write(&sb)
	t.str = sb.String()
	return t.str
}

func (t *T) write(sb *strings.Builder) {
	if t.str != "" {
		sb.WriteString(t.str)
		return
	}
	if t.Op == "forall" || t.Op == "exists" {
		sb.WriteString("(")
		sb.WriteString(t.Op)
		sb.WriteString(" (")
		for i, v := range t.Vars {
			if i > 0 {
				sb.WriteString(" ")
			}
			sb.WriteString("(" + v.Op + " " + string(v.S) + ")")
		}
		sb.WriteString(") ")
		t.Args[0].write(sb)
		sb.WriteString(")")
		return
	}
	if len(t.Args) == 0 {
		sb.WriteString(t.Op)
		return
	}
	sb.WriteString("(")
	sb.WriteString(t.Op)
	for _, a := range t.Args {
		sb.WriteString(" ")
		a.write(sb)
	}
	sb.WriteString(")")
}

var (
	True  = &T{Op: "true", S: SBool}
	False = &T{Op: "false", S: SBool}
)

func IntLit(n int64) *T {
	if n < 0 {
		return &T{Op: fmt.Sprintf("(- %d)", -n), S: SInt, str: fmt.Sprintf("(- %d)", -n)}
	}
	return &T{Op: fmt.Sprintf("%d", n), S: SInt}
}

func BigLit(n *big.Int) *T {
	if n.Sign() < 0 {
		s := "(- " + new(big.Int).Neg(n).String() + ")"
		return &T{Op: s, S: SInt, str: s}
	}
	return &T{Op: n.String(), S: SInt}
}

func RealLit(r *big.Rat) *T {
	var s string
	num, den := r.Num(), r.Denom()
	neg := num.Sign() < 0
	n := new(big.Int).Abs(num)
	if den.IsInt64() && den.Int64() == 1 {
		s = n.String() + ".0"
	} else {
		s = "(/ " + n.String() + ".0 " + den.String() + ".0)"
	}
	if neg {
		s = "(- " + s + ")"
	}
	return &T{Op: s, S: SReal, str: s}
}

func (t *T) IsIntLit() (int64, bool) {
	if t.S != SInt || len(t.Args) != 0 {
		return 0, false
	}
	var n int64
	if _, err := fmt.Sscanf(t.Op, "%d", &n); err == nil && fmt.Sprintf("%d", n) == t.Op {
		return n, true
	}
	if _, err := fmt.Sscanf(t.Op, "(- %d)", &n); err == nil && fmt.Sprintf("(- %d)", n) == t.Op {
		return -n, true
	}
	return 0, false
}

func Sym(name string, s Sort) *T { return &T{Op: name, S: s} }

func App(op string, s Sort, args ...*T) *T { return &T{Op: op, Args: args, S: s} }

func Not(a *T) *T {
	if a == True {
		return False
	}
	if a == False {
		return True
	}
	if a.Op == "not" && len(a.Args) == 1 {
		return a.Args[0]
	}
	return App("not", SBool, a)
}

func And(as ...*T) *T {
	var out []*T
	for _, a := range as {
		if a == nil || a == True {
			continue
		}
		if a == False {
			return False
		}
		if a.Op == "and" {
			out = append(out, a.Args...)
			continue
		}
		out = append(out, a)
	}
	if len(out) == 0 {
		return True
	}
	if len(out) == 1 {
		return out[0]
	}
	return App("and", SBool, out...)
}

func Or(as ...*T) *T {
	var out []*T
	for _, a := range as {
		if a == nil || a == False {
			continue
		}
		if a == True {
			return True
		}
		if a.Op == "or" {
			out = append(out, a.Args...)
			continue
		}
		out = append(out, a)
	}
	if len(out) == 0 {
		return False
	}
	if len(out) == 1 {
		return out[0]
	}
	return App("or", SBool, out...)
}

func Implies(a, b *T) *T {
	if a == True {
		return b
	}
	if a == False || b == True {
		return True
	}
	return App("=>", SBool, a, b)
}

func Eq(a, b *T) *T {
	if a.S != b.S {
		panic(fmt.Sprintf("Eq sort mismatch: %s:%s vs %s:%s", a, a.S, b, b.S))
	}
	if a == b || a.String() == b.String() {
		return True
	}
	if x, ok := a.IsIntLit(); ok {
		if y, ok := b.IsIntLit(); ok {
			if x == y {
				return True
			}
			return False
		}
	}
	if a.S == SBool {
		if a == True {
			return b
		}
		if b == True {
			return a
		}
		if a == False {
			return Not(b)
		}
		if b == False {
			return Not(a)
		}
	}
	return App("=", SBool, a, b)
}

func Ne(a, b *T) *T { return Not(Eq(a, b)) }

func Ite(c, a, b *T) *T {
	if c == True {
		return a
	}
	if c == False {
		return b
	}
	if a.String() == b.String() {
		return a
	}
	if a.S != b.S {
		panic(fmt.Sprintf("Ite sort mismatch: %s:%s vs %s:%s", a, a.S, b, b.S))
	}
	return App("ite", a.S, c, a, b)
}

func arith(op string, a, b *T) *T {
	if a.S != b.S {
		panic(fmt.Sprintf("arith %s sort mismatch: %s:%s vs %s:%s", op, a, a.S, b, b.S))
	}
	if a.S == SInt {
		x, ok1 := a.IsIntLit()
		y, ok2 := b.IsIntLit()
		if ok1 && ok2 {
			bx, by := big.NewInt(x), big.NewInt(y)
			switch op {
			case "+":
				return BigLit(bx.Add(bx, by))
			case "-":
				return BigLit(bx.Sub(bx, by))
			case "*":
				return BigLit(bx.Mul(bx, by))
			}
		}
		if ok2 && y == 0 && (op == "+" || op == "-") {
			return a
		}
		if ok1 && x == 0 && op == "+" {
			return b
		}
		if op == "*" && ok2 && y == 1 {
			return a
		}
		if op == "*" && ok1 && x == 1 {
			return b
		}
	}
	return App(op, a.S, a, b)
}

func Add(a, b *T) *T { return arith("+", a, b) }
func Sub(a, b *T) *T { return arith("-", a, b) }
func Mul(a, b *T) *T { return arith("*", a, b) }

func cmp(op string, a, b *T) *T {
	if a.S != b.S {
		panic(fmt.Sprintf("cmp %s sort mismatch: %s:%s vs %s:%s", op, a, a.S, b, b.S))
	}
	if x, ok := a.IsIntLit(); ok {
		if y, ok := b.IsIntLit(); ok {
			var r bool
			switch op {
			case "<":
				r = x < y
			case "<=":
				r = x <= y
			case ">":
				r = x > y
			case ">=":
				r = x >= y
			}
			if r {
				return True
			}
			return False
		}
	}
	return App(op, SBool, a, b)
}

func Lt(a, b *T) *T { return cmp("<", a, b) }
func Le(a, b *T) *T { return cmp("<=", a, b) }
func Gt(a, b *T) *T { return cmp(">", a, b) }
func Ge(a, b *T) *T { return cmp(">=", a, b) }

func Select(arr, idx *T) *T {
	_, v := arr.S.ArrParts()
	// read-over-write simplification for syntactically equal / distinct literal indices
	for arr.Op == "store" {
		if arr.Args[1].String() == idx.String() {
			return arr.Args[2]
		}
		x, ok1 := arr.Args[1].IsIntLit()
		y, ok2 := idx.IsIntLit()
		if ok1 && ok2 && x != y {
			arr = arr.Args[0]
			continue
		}
		break
	}
	return App("select", v, arr, idx)
}

func Store(arr, idx, val *T) *T {
	k, v := arr.S.ArrParts()
	if idx.S != k || val.S != v {
		panic(fmt.Sprintf("Store sort mismatch: arr %s idx %s:%s val %s:%s", arr.S, idx, idx.S, val, val.S))
	}
	return App("store", arr.S, arr, idx, val)
}

func Forall(vars []*T, body *T) *T {
	if body == True {
		return True
	}
	return &T{Op: "forall", Vars: vars, Args: []*T{body}, S: SBool}
}

func Exists(vars []*T, body *T) *T {
	if body == False {
		return False
	}
	return &T{Op: "exists", Vars: vars, Args: []*T{body}, S: SBool}
}

// Subst replaces free occurrences of symbols (by name) in t.
func Subst(t *T, m map[string]*T) *T {
	if len(m) == 0 {
		return t
	}
	if len(t.Args) == 0 && t.Vars == nil {
		if r, ok := m[t.Op]; ok {
			return r
		}
		return t
	}
	if t.Vars != nil {
		m2 := m
		for _, v := range t.Vars {
			if _, ok := m[v.Op]; ok {
				if &m2 == &m || len(m2) == len(m) {
					m2 = map[string]*T{}
					for k, x := range m {
						m2[k] = x
					}
				}
				delete(m2, v.Op)
			}
		}
		b := Subst(t.Args[0], m2)
		if b == t.Args[0] {
			return t
		}
		return &T{Op: t.Op, Vars: t.Vars, Args: []*T{b}, S: t.S}
	}
	changed := false
	args := make([]*T, len(t.Args))
	for i, a := range t.Args {
		args[i] = Subst(a, m)
		if args[i] != a {
			changed = true
		}
	}
	if !changed {
		return t
	}
	return &T{Op: t.Op, Args: args, S: t.S}
}

// Decls collects declarations needed for a set of terms.
type Decls struct {
	consts map[string]Sort   // nullary symbols
	funs   map[string]string // name -> "(args) ret"
	order  []string
}

func NewDecls() *Decls {
	return &Decls{consts: map[string]Sort{}, funs: map[string]string{}}
}

var builtinOps = map[string]bool{
	"true": true, "false": true, "and": true, "or": true, "not": true, "=>": true, "=": true,
	"ite": true, "+": true, "-": true, "*": true, "/": true, "div": true, "mod": true, "<": true, "<=": true,
	">": true, ">=": true, "select": true, "store": true, "distinct": true, "to_real": true,
	"to_int": true, "abs": true,
}

func (d *Decls) Collect(t *T, bound map[string]bool) {
	if t.patBody != nil {
		d.Collect(t.patBody, bound)
		d.Collect(t.patTerm, bound)
		return
	}
	if t.Vars != nil {
		nb := map[string]bool{}
		for k := range bound {
			nb[k] = true
		}
		for _, v := range t.Vars {
			nb[v.Op] = true
		}
		d.Collect(t.Args[0], nb)
		return
	}
	if len(t.Args) == 0 {
		if bound[t.Op] || builtinOps[t.Op] {
			return
		}
		c := t.Op[0]
		if (c >= '0' && c <= '9') || c == '(' {
			return // literal
		}
		if _, ok := d.consts[t.Op]; !ok {
			d.consts[t.Op] = t.S
			d.order = append(d.order, t.Op)
		}
		return
	}
	if !builtinOps[t.Op] && !strings.HasPrefix(t.Op, "(") {
		if _, ok := d.funs[t.Op]; !ok {
			var as []string
			for _, a := range t.Args {
				as = append(as, string(a.S))
			}
			d.funs[t.Op] = "(" + strings.Join(as, " ") + ") " + string(t.S)
			d.order = append(d.order, t.Op)
		}
	}
	for _, a := range t.Args {
		d.Collect(a, bound)
	}
}

func (d *Decls) Emit(sb *strings.Builder) {
	names := append([]string(nil), d.order...)
	sort.Strings(names)
	for _, n := range names {
		if s, ok := d.consts[n]; ok {
			fmt.Fprintf(sb, "(declare-fun %s () %s)\n", n, s)
		} else {
			fmt.Fprintf(sb, "(declare-fun %s %s)\n", n, d.funs[n])
		}
	}
}

func (d *Decls) Has(name string) bool {
	_, a := d.consts[name]
	_, b := d.funs[name]
	return a || b
}
