package main

import (
	"fmt"
	"go/types"
	"sort"
	"strings"

	"golang.org/x/tools/go/ssa"
)

type FuncResult struct {
	Name     string
	Pos      string
	Paths    int
	Obls     []*Obligation
	Vacuity  []*Obligation
	Errors   []string
	Abstr    []string
	Trivial  int
	Contract *FuncContract
	Relied   map[string]map[string]bool // contract key of a callee -> labels of its postconditions assumed at call sites
}

// verifyFunction generates all obligations of one function under its contract.
func (p *Program) verifyFunction(fn *ssa.Function, fc *FuncContract, noAssume map[string]bool) (res *FuncResult) {
	x := &Exec{prog: p, fn: fn, contract: fc, maxPaths: 4000, ordinals: map[string]int{}, noAssume: noAssume}
	res = &FuncResult{Name: p.shortName(fn), Pos: p.fset.Position(fn.Pos()).String(), Contract: fc}
	defer func() {
		if r := recover(); r != nil {
			if ee, ok := r.(evalError); ok {
				x.errorf("contract evaluation: %s", ee.msg)
			} else {
				x.errorf("engine panic: %v", r)
				if debugPanics {
					panic(r)
				}
			}
		}
		res.Paths = x.paths
		res.Obls = x.obls
		res.Relied = x.relied
		res.Vacuity = x.vacuity
		res.Errors = x.errs
		res.Trivial = x.safeTrivial
		for a := range x.abstr {
			res.Abstr = append(res.Abstr, a)
		}
		sort.Strings(res.Abstr)
		finishNames(res.Obls)
	}()
	if len(fn.Blocks) == 0 {
		x.errorf("function %s has no body", fn)
		return
	}
	st := &State{X: x, Heap: map[string]*T{}, HeapS: map[string]Sort{}, Ghost: map[string]Val{}, AsOf: map[string]*T{}}
	x.entry = st // heapGet registers entry symbols here until the snapshot is taken
	fr := &Frame{fn: fn, regs: map[ssa.Value]Val{}, cells: map[*ssa.Alloc]Val{}, active: map[*ssa.BasicBlock]bool{}, loops: p.loopsOf(fn), contract: fc}
	st.heapGet("Alloc", ArrSort(SInt, SBool))
	st.heapGet("Held", ArrSort(SInt, SBool))
	for _, prm := range fn.Params {
		v := st.freshVal(prm.Type(), "p_"+sanitize(prm.Name()))
		x.assumeParamAllocated(st, prm.Type(), v)
		fr.params = append(fr.params, v)
	}
	for _, fv := range fn.FreeVars {
		r := st.X.fresh("fv_"+sanitize(fv.Name()), SInt)
		st.Assume(Ne(r, IntLit(0)))
		st.assumeAllocated(r)
		v := Val{Typ: fv.Type(), C: []*T{r}}
		if !isStruct(deref(fv.Type())) {
			v.Addr = &Addr{Kind: AddrBox, Base: r, Elem: deref(fv.Type())}
		}
		fr.freeVars = append(fr.freeVars, v)
	}
	// distinct captured cells
	for i := range fr.freeVars {
		for j := i + 1; j < len(fr.freeVars); j++ {
			if types.Identical(fr.freeVars[i].Typ, fr.freeVars[j].Typ) {
				st.Assume(Ne(fr.freeVars[i].C[0], fr.freeVars[j].C[0]))
			}
		}
	}
	// package initialiser facts
	for _, f := range p.initFactsFor(p.pkgPathOf(fn)) {
		st.Assume(f)
	}
	env := x.envFor(st, fr)
	env.old = nil
	// trusted axioms from the spec files
	for _, ax := range p.contracts.Axioms {
		g, err := env.EvalBool(ax.Expr)
		if err != nil {
			x.errorf("%s:%d: axiom %s: %v", ax.File, ax.Line, ax.Name, err)
			continue
		}
		st.Assume(g)
	}
	goTypeResolver = func(name string) types.Type { return p.resolveGoType(env.pkg, name) }
	if fc != nil {
		for _, g := range fc.Ghosts {
			for _, prm := range fn.Params {
				if prm.Name() == g.Name {
					x.errorf("%s:%d: ghost %s shadows a parameter of %s", fc.File, fc.Line, g.Name, fc.Key)
				}
			}
			if rs := fn.Signature.Results(); rs != nil {
				for i := 0; i < rs.Len(); i++ {
					if rs.At(i).Name() == g.Name {
						x.errorf("%s:%d: ghost %s shadows a named result of %s", fc.File, fc.Line, g.Name, fc.Key)
					}
				}
			}
			srt, typ := ghostSort(g.Type)
			var v Val
			if g.Init == "zero" && srt.IsArray() {
				v = Val{Typ: typ, C: []*T{constArrayZero(srt, x)}}
			} else if g.Init != "" {
				iv, err := env.EvalVal(g.Init)
				if err != nil {
					x.errorf("%s:%d: ghost %s: %v", fc.File, fc.Line, g.Name, err)
					continue
				}
				v = Val{Typ: typ, C: iv.C}
			} else if typ != nil && len(Layout(typ)) > 1 {
				v = x.zeroVal(typ)
			} else {
				v = Val{Typ: typ, C: []*T{x.fresh("ghost_"+g.Name, srt)}}
			}
			st.Ghost[g.Name] = v
		}
		// receiver / pointer params of declared struct types satisfy their type invariants on entry (assumed), re-established at exit (checked)
		for _, c := range fc.Requires {
			g, err := env.EvalBool(c.Expr)
			if err != nil {
				lbl := c.Label
				if lbl == "" {
					lbl = "requires"
				}
				st.unbound("pre", "own:"+lbl, fc.Props, fn.Pos(), c.Expr, err)
				continue
			}
			st.Assume(g)
		}
	}
	if fc != nil && len(fc.Loops) > 0 {
		// a loop contract whose loop is gone (deleted, or moved into another function) binds to nothing
		have := map[int]bool{}
		li := x.prog.loopsOf(fn)
		for _, n := range li.ordinal {
			have[n] = true
		}
		var ns []int
		for n := range fc.Loops {
			if !have[n] {
				ns = append(ns, n)
			}
		}
		sort.Ints(ns)
		for _, n := range ns {
			lc := fc.Loops[n]
			why := fmt.Errorf("loop %d of the contract is not a loop of %s any more", n, res.Name)
			if lc.At != "" {
				why = fmt.Errorf("no loop of %s has a header containing %q (loop %d of the contract)", res.Name, lc.At, n)
			}
			for _, c := range lc.Invariants {
				st.unbound("inv-init", fmt.Sprintf("L%d:%s", n, c.Label), propsOr(c.Props, x.safetyProps()), fn.Pos(), c.Expr, why)
			}
		}
	}
	x.entry = st.Clone()
	x.entry.X = x
	x.vacuity = append(x.vacuity, &Obligation{Name: res.Name + "#vacuity:requires-sat", Kind: "vacuity", Func: res.Name, Assume: st.PC[:len(st.PC):len(st.PC)], Goal: True, Vacuity: true})
	x.step(st, fr, fn.Blocks[0], 0, nil)
	if x.retCover == 0 && len(x.errs) == 0 && !fc.Flags["noreturn"] {
		// functions that never return (infinite loops) are fine; note it
		x.noteAbstraction("no return path reached (non-terminating loop or all paths end in exit)")
	}
	return
}

var debugPanics = false

func (x *Exec) assumeParamAllocated(st *State, t types.Type, v Val) {
	if isPointerLike(t) && len(v.C) == 1 {
		st.assumeAllocated(v.C[0])
	}
	if _, ok := t.Underlying().(*types.Slice); ok {
		st.assumeAllocated(v.C[0])
	}
}

// finishNames appends a source-order ordinal to obligation names so they are stable and unique.
func finishNames(obs []*Obligation) {
	// group by base name; order by position then by generation order
	groups := map[string][]*Obligation{}
	for _, o := range obs {
		groups[o.Name] = append(groups[o.Name], o)
	}
	for base, g := range groups {
		// distinct source positions get distinct ordinals; same position (different paths) share the ordinal with a path suffix
		posOrd := map[string]int{}
		var poss []string
		for _, o := range g {
			k := fmt.Sprintf("%09d:%05d", o.Pos.Line, o.Pos.Column)
			if _, ok := posOrd[k]; !ok {
				posOrd[k] = 0
				poss = append(poss, k)
			}
		}
		sort.Strings(poss)
		for i, k := range poss {
			posOrd[k] = i + 1
		}
		perPos := map[string]int{}
		for _, o := range g {
			k := fmt.Sprintf("%09d:%05d", o.Pos.Line, o.Pos.Column)
			perPos[k]++
			o.Name = fmt.Sprintf("%s#%d", base, posOrd[k])
			o.PathN = perPos[k]
		}
	}
}

// initFactsFor symbolically runs the package initialiser once and extracts facts about immutable globals.
func (p *Program) initFactsFor(pkgPath string) []*T {
	if p.initDone[pkgPath] {
		return p.initFacts[pkgPath]
	}
	p.initDone[pkgPath] = true
	sp := p.ssaPkgs[pkgPath]
	if sp == nil {
		return nil
	}
	facts, notes := p.runInit(sp)
	p.initFacts[pkgPath] = facts
	p.initNotes[pkgPath] = notes
	return facts
}

func describeObl(o *Obligation) string {
	return fmt.Sprintf("%s [%s] %s (%s %.2fs) @%s:%d", o.Name, strings.Join(o.Props, ","), o.Verdict, o.Solver, o.TimeS, shortFile(o.Pos.Filename), o.Pos.Line)
}

func shortFile(f string) string {
	if i := strings.Index(f, "/repo/"); i >= 0 {
		return f[i+6:]
	}
	return f
}


// resolveGoType interprets *pkg.Name, pkg.Name, Name and []T relative to a package's scope and imports.
func (p *Program) resolveGoType(pkg *types.Package, s string) types.Type {
	s = strings.TrimSpace(s)
	if strings.HasPrefix(s, "*") {
		if t := p.resolveGoType(pkg, s[1:]); t != nil {
			return types.NewPointer(t)
		}
		return nil
	}
	if strings.HasPrefix(s, "[]") {
		if t := p.resolveGoType(pkg, s[2:]); t != nil {
			return types.NewSlice(t)
		}
		return nil
	}
	if s == "interface{}" || s == "interface {}" || s == "any" {
		return types.NewInterfaceType(nil, nil)
	}
	if strings.HasPrefix(s, "map[") {
		depth := 0
		for i := 3; i < len(s); i++ {
			if s[i] == '[' {
				depth++
			} else if s[i] == ']' {
				depth--
				if depth == 0 {
					k, v := p.resolveGoType(pkg, s[4:i]), p.resolveGoType(pkg, s[i+1:])
					if k == nil || v == nil {
						return nil
					}
					return types.NewMap(k, v)
				}
			}
		}
		return nil
	}
	if obj := types.Universe.Lookup(s); obj != nil {
		return obj.Type()
	}
	if pkg == nil {
		return nil
	}
	if i := strings.Index(s, "."); i > 0 {
		if s[:i] == pkgQual(pkg) || s[:i] == pkg.Name() {
			if obj := pkg.Scope().Lookup(s[i+1:]); obj != nil {
				return obj.Type()
			}
			return nil
		}
		for _, imp := range pkg.Imports() {
			if imp.Name() == s[:i] {
				if obj := imp.Scope().Lookup(s[i+1:]); obj != nil {
					return obj.Type()
				}
			}
		}
		return nil
	}
	if obj := pkg.Scope().Lookup(s); obj != nil {
		return obj.Type()
	}
	return nil
}


func constArrayZero(srt Sort, x *Exec) *T {
	_, vs := srt.ArrParts()
	var z *T
	if vs.IsArray() {
		z = constArrayZero(vs, x)
	} else {
		z = zeroOf(vs, x)
	}
	return App("(as const "+string(srt)+")", srt, z)
}
