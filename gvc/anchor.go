package main

import (
	"go/ast"
	"go/scanner"
	"go/token"
	"os"
	"sort"
	"strings"

	"golang.org/x/tools/go/ssa"
)

// Anchors bind a contract to a closure or a loop by a snippet of its source text instead of by its ordinal, so that
// inserting or removing another closure / loop earlier in the function does not shift the binding. An anchored closure
// or loop keeps the name (F$2, loop 3) its contract gives it; everything else keeps its natural ordinal.

func normWS(s string) string { return strings.Join(strings.Fields(s), " ") }

func (p *Program) srcBetween(pos, end token.Pos) string {
	if !pos.IsValid() || !end.IsValid() {
		return ""
	}
	f := p.fset.File(pos)
	if f == nil {
		return ""
	}
	p.mu.Lock()
	if p.srcCache == nil {
		p.srcCache = map[string][]byte{}
	}
	b, ok := p.srcCache[f.Name()]
	if !ok {
		b, _ = os.ReadFile(f.Name())
		p.srcCache[f.Name()] = b
	}
	p.mu.Unlock()
	a, z := f.Offset(pos), f.Offset(end)
	if a < 0 || z > len(b) || a > z {
		return ""
	}
	return normWS(string(b[a:z]))
}

func depthOf(fn *ssa.Function) int {
	d := 0
	for f := fn; f.Parent() != nil; f = f.Parent() {
		d++
	}
	return d
}

// naturalKey is the ordinal-based local key of a function (closures: parent key + $ + position).
func (p *Program) naturalKey(fn *ssa.Function) string {
	s := shortenKey(fn.String())
	f := fn
	for f.Parent() != nil {
		f = f.Parent()
	}
	if f.Pkg != nil {
		s = strings.Replace(s, pkgQual(f.Pkg.Pkg)+".", "", 1)
	}
	return s
}

// bindAnchors resolves the closure anchors of all parsed contracts (called once after loading).
func (p *Program) bindAnchors() []string {
	var notes []string
	p.anchorKey = map[*ssa.Function]string{}
	p.anchored = map[string]bool{}
	var keys []string
	for k, fc := range p.contracts.Funcs {
		if fc.At != "" && !fc.Extern && strings.Contains(fc.Key, "$") {
			keys = append(keys, k)
		}
	}
	sort.Strings(keys)
	for _, k := range keys {
		fc := p.contracts.Funcs[k]
		rootKey := fc.Key[:strings.Index(fc.Key, "$")]
		sp := p.ssaPkgs[fc.PkgPath]
		if sp == nil {
			continue
		}
		var root *ssa.Function
		for _, f := range p.allFuncs(fc.PkgPath) {
			if f.Parent() == nil && p.naturalKey(f) == rootKey {
				root = f
			}
		}
		if root == nil {
			continue
		}
		want := strings.Count(fc.Key, "$")
		at := normWS(fc.At)
		var cands []*ssa.Function
		var walk func(f *ssa.Function)
		walk = func(f *ssa.Function) {
			for _, a := range f.AnonFuncs {
				if depthOf(a) == want {
					if syn := a.Syntax(); syn != nil && strings.Contains(p.srcBetween(syn.Pos(), syn.End()), at) {
						cands = append(cands, a)
					}
				}
				walk(a)
			}
		}
		walk(root)
		if len(cands) == 1 {
			p.anchorKey[cands[0]] = fc.Key
			p.anchored[fc.PkgPath+"::"+fc.Key] = true
		} else {
			notes = append(notes, fc.Key+": anchor matches "+itoa(len(cands))+" closures; bound by ordinal")
		}
	}
	return notes
}

// astLoops lists the for / range statements of a function body in source order, not descending into closures.
func astLoops(n ast.Node) []ast.Stmt {
	var out []ast.Stmt
	var body *ast.BlockStmt
	switch f := n.(type) {
	case *ast.FuncDecl:
		body = f.Body
	case *ast.FuncLit:
		body = f.Body
	}
	if body == nil {
		return nil
	}
	ast.Inspect(body, func(x ast.Node) bool {
		switch s := x.(type) {
		case *ast.FuncLit:
			return false
		case *ast.ForStmt:
			out = append(out, s)
		case *ast.RangeStmt:
			out = append(out, s)
		}
		return true
	})
	sort.Slice(out, func(i, j int) bool { return out[i].Pos() < out[j].Pos() })
	return out
}

// anchorLoops renumbers the loops of fn so that every anchored loop contract owns the loop whose header text it names.
func (p *Program) anchorLoops(fn *ssa.Function, li *loopInfo) {
	fc := p.contractFor(fn)
	if fc == nil || fn.Syntax() == nil {
		return
	}
	any := false
	for _, lc := range fc.Loops {
		if lc.At != "" {
			any = true
		}
	}
	if !any {
		return
	}
	loops := astLoops(fn.Syntax())
	if len(loops) != len(li.headers) {
		return // goto loops or optimised-away loops: keep ordinals
	}
	text := make([]string, len(loops))
	for i, l := range loops {
		var lb token.Pos
		switch s := l.(type) {
		case *ast.ForStmt:
			lb = s.Body.Lbrace
		case *ast.RangeStmt:
			lb = s.Body.Lbrace
		}
		text[i] = p.srcBetween(l.Pos(), lb)
	}
	claimed := map[int]int{} // header index -> contract ordinal
	taken := map[int]bool{}  // contract ordinals owned by an anchor
	var ns []int
	for n := range fc.Loops {
		ns = append(ns, n)
	}
	sort.Ints(ns)
	for _, n := range ns {
		lc := fc.Loops[n]
		if lc.At == "" {
			continue
		}
		taken[n] = true // an anchored contract binds by its anchor only, never by position
		at := normWS(lc.At)
		hit := -1
		cnt := 0
		for i, t := range text {
			if strings.Contains(t, at) {
				hit = i
				cnt++
			}
		}
		if cnt == 0 {
			// the header may have been touched by a rename: compare with the loop's own variables wildcarded and the
			// locals the contract describes (locals.go) called what they are called now
			want := loopHeaderShape(at, func(id string) string {
				if nn := p.currentNames(fc, fn, id); len(nn) > 0 {
					return nn[0]
				}
				return id
			})
			// a header that equals the anchor outranks headers that merely contain it
			for i, t := range text {
				if loopHeaderShape(t, nil) == want {
					hit = i
					cnt++
				}
			}
			if cnt != 1 {
				cnt = 0
				for i, t := range text {
					if strings.Contains(loopHeaderShape(t, nil), want) {
						hit = i
						cnt++
					}
				}
			}
		}
		if cnt == 0 {
			// last resort: any identifier of the anchor may stand for any local variable in the header
			for i, l := range loops {
				if p.headerMatchesModuloLocals(l, at, true) {
					hit = i
					cnt++
				}
			}
			if cnt != 1 {
				cnt = 0
				for i, l := range loops {
					if p.headerMatchesModuloLocals(l, at, false) {
						hit = i
						cnt++
					}
				}
			}
		}
		if cnt == 0 {
			// the header itself was edited (a constant, an operator): the loop whose header differs from the anchor in
			// one token only, if there is exactly one such loop
			for i, l := range loops {
				if p.headerDistance(l, at) == 1 {
					hit = i
					cnt++
				}
			}
		}
		if cnt == 1 {
			if _, dup := claimed[hit]; !dup {
				claimed[hit] = n
				taken[n] = true
			}
		}
	}
	for i, h := range li.headers {
		if n, ok := claimed[i]; ok {
			li.ordinal[h] = n
		} else if taken[i+1] {
			li.ordinal[h] = 100 + i + 1 // its natural number belongs to an anchored loop elsewhere
		} else {
			li.ordinal[h] = i + 1
		}
	}
}

// cmdAnchors prints, for every closure and loop under contract, a source snippet that identifies it uniquely
// (used once by tools/addanchors.py to annotate the contract files).
func cmdAnchors(args []string) int {
	repo := "/repo"
	pats, err := packagesFor(repo, "C07")
	if err != nil || len(pats) == 0 {
		return 2
	}
	prog, err := LoadProgram(repo, pats)
	if err != nil {
		println(err.Error())
		return 2
	}
	var keys []string
	for k := range prog.contracts.Funcs {
		keys = append(keys, k)
	}
	sort.Strings(keys)
	for _, k := range keys {
		fc := prog.contracts.Funcs[k]
		if fc.Extern {
			continue
		}
		fn := prog.findFunc(fc.PkgPath, fc.Key)
		if fn == nil {
			continue
		}
		dir := strings.TrimPrefix(fc.PkgPath, modulePath+"/")
		// closure anchor
		if strings.Contains(fc.Key, "$") && fn.Syntax() != nil {
			if lit, ok := fn.Syntax().(*ast.FuncLit); ok {
				root := fn
				for root.Parent() != nil {
					root = root.Parent()
				}
				var others []string
				var walk func(f *ssa.Function)
				walk = func(f *ssa.Function) {
					for _, a := range f.AnonFuncs {
						if a != fn && depthOf(a) == depthOf(fn) && a.Syntax() != nil {
							others = append(others, prog.srcBetween(a.Syntax().Pos(), a.Syntax().End()))
						}
						walk(a)
					}
				}
				walk(root)
				for _, st := range lit.Body.List {
					txt := prog.srcBetween(st.Pos(), st.End())
					if i := strings.Index(txt, "{"); i > 0 {
						txt = strings.TrimSpace(txt[:i])
					}
					if len(txt) < 8 || len(txt) > 160 {
						continue
					}
					uniq := true
					for _, o := range others {
						if strings.Contains(o, txt) {
							uniq = false
						}
					}
					if uniq {
						println(dir + "\t" + fc.Key + "\t-\t" + txt)
						break
					}
				}
			}
		}
		// loop anchors
		if len(fc.Loops) > 0 && fn.Syntax() != nil {
			loops := astLoops(fn.Syntax())
			li := analyzeLoops(fn)
			if len(loops) != len(li.headers) {
				continue
			}
			text := make([]string, len(loops))
			for i, l := range loops {
				var lb token.Pos
				switch s := l.(type) {
				case *ast.ForStmt:
					lb = s.Body.Lbrace
				case *ast.RangeStmt:
					lb = s.Body.Lbrace
				}
				text[i] = prog.srcBetween(l.Pos(), lb)
			}
			for n := range fc.Loops {
				if n < 1 || n > len(text) {
					continue
				}
				t := text[n-1]
				cnt := 0
				for _, o := range text {
					if strings.Contains(o, t) {
						cnt++
					}
				}
				if cnt == 1 && len(t) >= 5 {
					println(dir + "\t" + fc.Key + "\t" + itoa(n) + "\t" + t)
				}
			}
		}
	}
	return 0
}

// loopHeaderShape re-tokenises the text of a loop header, replaces the variables the header itself declares (the names
// before :=) by "_" and passes every other identifier that is not a selector through subst.
func loopHeaderShape(src string, subst func(string) string) string {
	fs := token.NewFileSet()
	f := fs.AddFile("", fs.Base(), len(src))
	var sc scanner.Scanner
	sc.Init(f, []byte(src), nil, 0)
	type tk struct {
		tok token.Token
		lit string
	}
	var toks []tk
	for {
		_, tok, lit := sc.Scan()
		if tok == token.EOF {
			break
		}
		if tok == token.SEMICOLON && lit == "\n" {
			continue
		}
		if lit == "" {
			lit = tok.String()
		}
		toks = append(toks, tk{tok, lit})
	}
	own := map[string]bool{}
	for i, t := range toks {
		if t.tok == token.DEFINE {
			for _, u := range toks[:i] {
				if u.tok == token.IDENT {
					own[u.lit] = true
				}
			}
			break
		}
	}
	var out []string
	for i, t := range toks {
		l := t.lit
		if t.tok == token.IDENT && (i == 0 || toks[i-1].tok != token.PERIOD) {
			if own[l] {
				l = "_"
			} else if subst != nil {
				l = subst(l)
			}
		}
		out = append(out, l)
	}
	return strings.Join(out, " ")
}

type hdrTok struct {
	lit   string
	ident bool
	local bool
}

func scanToks(src string, base int, locals map[int]bool) []hdrTok {
	fs := token.NewFileSet()
	f := fs.AddFile("", fs.Base(), len(src))
	var sc scanner.Scanner
	sc.Init(f, []byte(src), nil, 0)
	var out []hdrTok
	for {
		pos, tok, lit := sc.Scan()
		if tok == token.EOF {
			break
		}
		if tok == token.SEMICOLON && lit == "\n" {
			continue
		}
		if lit == "" {
			lit = tok.String()
		}
		out = append(out, hdrTok{lit: lit, ident: tok == token.IDENT, local: locals[base+f.Offset(pos)]})
	}
	return out
}

// headerToks tokenises the header of loop l and marks the identifiers that denote local variables.
func (p *Program) headerToks(l ast.Stmt) []hdrTok {
	var lb token.Pos
	switch s := l.(type) {
	case *ast.ForStmt:
		lb = s.Body.Lbrace
	case *ast.RangeStmt:
		lb = s.Body.Lbrace
	default:
		return nil
	}
	pk, _ := p.pkgOfPos(l.Pos())
	tf := p.fset.File(l.Pos())
	if pk == nil || tf == nil {
		return nil
	}
	p.srcBetween(l.Pos(), l.Pos())
	p.mu.Lock()
	b := p.srcCache[tf.Name()]
	p.mu.Unlock()
	lo, hi := tf.Offset(l.Pos()), tf.Offset(lb)
	if lo < 0 || hi > len(b) || lo > hi {
		return nil
	}
	locals := map[int]bool{}
	ast.Inspect(l, func(n ast.Node) bool {
		if n != nil && n.Pos() >= lb {
			return false
		}
		if id, ok := n.(*ast.Ident); ok {
			if obj := pk.TypesInfo.ObjectOf(id); obj != nil && isLocalVar(pk, obj) {
				locals[tf.Offset(id.Pos())] = true
			}
		}
		return true
	})
	return scanToks(string(b[lo:hi]), lo, locals)
}

func tokMatches(hdr []hdrTok, k int, a hdrTok) bool {
	h := hdr[k]
	return a.lit == h.lit || (h.local && a.ident && (k == 0 || hdr[k-1].lit != "."))
}

// headerMatchesModuloLocals: the anchor occurs in the header of loop l when identifiers of the anchor are allowed to
// stand for local variables of the header (whatever they are called now).
func (p *Program) headerMatchesModuloLocals(l ast.Stmt, anchor string, whole bool) bool {
	hdr := p.headerToks(l)
	at := scanToks(anchor, 0, nil)
	if len(at) == 0 || len(hdr) == 0 {
		return false
	}
	for o := 0; o+len(at) <= len(hdr); o++ {
		if whole && (o != 0 || len(at) != len(hdr)) {
			break
		}
		ok := true
		for j := range at {
			if !tokMatches(hdr, o+j, at[j]) {
				ok = false
				break
			}
		}
		if ok {
			return true
		}
	}
	return false
}

// headerDistance: number of tokens in which the whole header of l differs from the anchor (modulo locals); -1 when the
// two have different lengths.
func (p *Program) headerDistance(l ast.Stmt, anchor string) int {
	hdr := p.headerToks(l)
	at := scanToks(anchor, 0, nil)
	if len(at) == 0 || len(at) != len(hdr) {
		return -1
	}
	d := 0
	for j := range at {
		if !tokMatches(hdr, j, at[j]) {
			d++
		}
	}
	return d
}
