package main

import (
	"fmt"
	"go/ast"
	"go/constant"
	"go/parser"
	"go/token"
	"go/types"
	"math/big"
	"strconv"
	"strings"

	"golang.org/x/tools/go/ssa"
)

// rewriteSpec turns `a ==> b` / `a <==> b` into implies(a, b) / iff(a, b) so that go/parser accepts it.
func rewriteSpec(s string) string {
	s = strings.TrimSpace(s)
	// top-level split on <==> then ==>
	if i := findTop(s, "<==>"); i >= 0 {
		return "iff(" + rewriteSpec(s[:i]) + ", " + rewriteSpec(s[i+4:]) + ")"
	}
	if i := findTop(s, "==>"); i >= 0 {
		return "implies(" + rewriteSpec(s[:i]) + ", " + rewriteSpec(s[i+3:]) + ")"
	}
	// recurse into groups
	var sb strings.Builder
	i := 0
	for i < len(s) {
		c := s[i]
		if c == '"' || c == '`' {
			j := skipString(s, i)
			sb.WriteString(s[i:j])
			i = j
			continue
		}
		if c == '(' || c == '[' {
			j := matchClose(s, i)
			inner := s[i+1 : j]
			parts := splitCommaTopStr(inner)
			for k := range parts {
				parts[k] = rewriteSpec(parts[k])
			}
			sb.WriteByte(c)
			sb.WriteString(strings.Join(parts, ", "))
			sb.WriteByte(s[j])
			i = j + 1
			continue
		}
		sb.WriteByte(c)
		i++
	}
	return sb.String()
}

func skipString(s string, i int) int {
	q := s[i]
	j := i + 1
	for j < len(s) {
		if s[j] == '\\' && q == '"' {
			j += 2
			continue
		}
		if s[j] == q {
			return j + 1
		}
		j++
	}
	return len(s)
}

func matchClose(s string, i int) int {
	depth := 0
	for j := i; j < len(s); j++ {
		switch s[j] {
		case '"', '`':
			j = skipString(s, j) - 1
		case '(', '[':
			depth++
		case ')', ']':
			depth--
			if depth == 0 {
				return j
			}
		}
	}
	return len(s) - 1
}

func findTop(s, op string) int {
	depth := 0
	for j := 0; j < len(s); j++ {
		switch s[j] {
		case '"', '`':
			j = skipString(s, j) - 1
		case '(', '[':
			depth++
		case ')', ']':
			depth--
		default:
			if depth == 0 && strings.HasPrefix(s[j:], op) {
				if op == "==>" && j > 0 && s[j-1] == '<' {
					continue
				}
				return j
			}
		}
	}
	return -1
}

func splitCommaTopStr(s string) []string {
	var out []string
	depth := 0
	start := 0
	for j := 0; j < len(s); j++ {
		switch s[j] {
		case '"', '`':
			j = skipString(s, j) - 1
		case '(', '[':
			depth++
		case ')', ']':
			depth--
		case ',':
			if depth == 0 {
				out = append(out, s[start:j])
				start = j + 1
			}
		}
	}
	out = append(out, s[start:])
	return out
}

var exprCache = map[string]ast.Expr{}

func parseSpecExpr(src string) (ast.Expr, error) {
	if e, ok := exprCache[src]; ok {
		return e, nil
	}
	rw := rewriteSpec(src)
	e, err := parser.ParseExpr(rw)
	if err != nil {
		return nil, fmt.Errorf("cannot parse %q (rewritten %q): %v", src, rw, err)
	}
	exprCache[src] = e
	return e, nil
}

// Env is the evaluation environment for contract expressions.
type Env struct {
	x     *Exec
	st    *State
	old   *State
	fr    *Frame
	vars  map[string]Val
	pkg   *types.Package
	bound map[string]Val
	depth int
	loopPre *State // state at entry of the loop whose invariant is being evaluated
}

func (e *Env) with(name string, v Val) *Env {
	n := *e
	// facts recorded while evaluating under a binder would mention the bound variable: evaluate on a scratch state
	if e.st != nil {
		n.st = e.st.Clone()
	}
	n.bound = map[string]Val{}
	for k, x := range e.bound {
		n.bound[k] = x
	}
	n.bound[name] = v
	return &n
}

type evalError struct{ msg string }

func (e *Env) fail(format string, args ...interface{}) {
	panic(evalError{fmt.Sprintf(format, args...)})
}

// EvalBool evaluates a contract expression to a Bool term.
func (e *Env) EvalBool(src string) (t *T, err error) {
	defer func() {
		if r := recover(); r != nil {
			if ee, ok := r.(evalError); ok {
				err = fmt.Errorf("%s: in %q", ee.msg, src)
				return
			}
			panic(r)
		}
	}()
	ex, perr := parseSpecExpr(src)
	if perr != nil {
		return nil, perr
	}
	v := e.eval(ex)
	if len(v.C) != 1 || v.C[0].S != SBool {
		return nil, fmt.Errorf("expression %q is not boolean", src)
	}
	return v.C[0], nil
}

func (e *Env) EvalVal(src string) (v Val, err error) {
	defer func() {
		if r := recover(); r != nil {
			if ee, ok := r.(evalError); ok {
				err = fmt.Errorf("%s: in %q", ee.msg, src)
				return
			}
			panic(r)
		}
	}()
	ex, perr := parseSpecExpr(src)
	if perr != nil {
		return Val{}, perr
	}
	return e.eval(ex), nil
}

func boolVal(t *T) Val { return Val{Typ: types.Typ[types.Bool], C: []*T{t}} }
func intVal(t *T) Val  { return Val{Typ: types.Typ[types.Int], C: []*T{t}} }
func strVal(t *T) Val  { return Val{Typ: types.Typ[types.String], C: []*T{t}} }

func (e *Env) eval(ex ast.Expr) Val {
	switch n := ex.(type) {
	case *ast.ParenExpr:
		return e.eval(n.X)
	case *ast.BasicLit:
		switch n.Kind {
		case token.INT:
			v, _ := strconv.ParseInt(n.Value, 0, 64)
			return intVal(IntLit(v))
		case token.STRING:
			s, _ := strconv.Unquote(n.Value)
			return strVal(e.x.prog.strLit(s))
		case token.FLOAT:
			c := constant.MakeFromLiteral(n.Value, token.FLOAT, 0)
			r, _ := constant.Val(constant.ToFloat(c)).(interface{})
			_ = r
			return Val{Typ: types.Typ[types.Float64], C: []*T{ratOfConst(c)}}
		case token.CHAR:
			s, _ := strconv.Unquote(n.Value)
			return intVal(IntLit(int64([]rune(s)[0])))
		}
	case *ast.Ident:
		return e.evalIdent(n.Name)
	case *ast.SelectorExpr:
		return e.evalSelector(n)
	case *ast.StarExpr:
		p := e.eval(n.X)
		return e.st.load(p)
	case *ast.UnaryExpr:
		if n.Op == token.AND {
			// &name: the address of a local struct / captured variable (as passed to pointer-receiver methods)
			if id, ok := n.X.(*ast.Ident); ok && e.fr != nil {
				if p, ok := e.fr.lookupAddr(e.st, id.Name); ok {
					e.recordLocal(id.Name)
					return p
				}
				if nn, ok := e.aliasOf(id.Name); ok {
					if p, ok := e.fr.lookupAddr(e.st, nn); ok {
						return p
					}
				}
			}
			// &x.f where f is a nested struct field of *x: the sub-object reference
			if sel, ok := n.X.(*ast.SelectorExpr); ok {
				bx := e.eval(sel.X)
				if bx.Typ != nil {
					if pt, ok := bx.Typ.Underlying().(*types.Pointer); ok {
						if stt, ok := pt.Elem().Underlying().(*types.Struct); ok {
							for i := 0; i < stt.NumFields(); i++ {
								if stt.Field(i).Name() == sel.Sel.Name && isStruct(stt.Field(i).Type()) {
									return Val{Typ: types.NewPointer(stt.Field(i).Type()), C: []*T{e.st.subRef(bx.C[0], pt.Elem(), i)}}
								}
							}
						}
					}
				}
			}
			e.fail("cannot take the address of this expression in a contract")
		}
		v := e.eval(n.X)
		switch n.Op {
		case token.NOT:
			return boolVal(Not(v.T()))
		case token.SUB:
			if v.T().S == SReal {
				return Val{Typ: v.Typ, C: []*T{App("-", SReal, v.T())}}
			}
			return intVal(Sub(IntLit(0), v.T()))
		case token.ADD:
			return v
		}
	case *ast.BinaryExpr:
		return e.evalBinary(n)
	case *ast.IndexExpr:
		return e.evalIndex(n)
	case *ast.SliceExpr:
		x := e.eval(n.X)
		if _, ok := x.Typ.Underlying().(*types.Slice); !ok {
			e.fail("slice expression on non-slice")
		}
		lo := IntLit(0)
		hi := x.C[2]
		if n.Low != nil {
			lo = e.eval(n.Low).T()
		}
		if n.High != nil {
			hi = e.eval(n.High).T()
		}
		return Val{Typ: x.Typ, C: []*T{x.C[0], Add(x.C[1], lo), Sub(hi, lo), Sub(x.C[3], lo)}}
	case *ast.CallExpr:
		return e.evalCall(n)
	}
	e.fail("unsupported expression %T", ex)
	return Val{}
}

func ratOfConst(c constant.Value) *T {
	f := constant.ToFloat(c)
	num := constant.Num(f)
	den := constant.Denom(f)
	ns, ds := num.ExactString(), den.ExactString()
	if ds == "1" {
		return &T{Op: ns + ".0", S: SReal, str: ns + ".0"}
	}
	s := "(/ " + ns + ".0 " + ds + ".0)"
	return &T{Op: s, S: SReal, str: s}
}

func (e *Env) evalIdent(name string) Val {
	switch name {
	case "true":
		return boolVal(True)
	case "false":
		return boolVal(False)
	case "nil":
		return Val{Typ: types.Typ[types.UntypedNil], C: []*T{IntLit(0)}}
	}
	if v, ok := e.bound[name]; ok {
		return v
	}
	if v, ok := e.vars[name]; ok {
		return v
	}
	if e.st != nil {
		if v, ok := e.st.Ghost[name]; ok {
			return v
		}
	}
	if e.fr != nil {
		if vis, known := e.fr.lexicallyVisible(name); known && !vis {
			// no variable of that name is in scope where the clause stands: a renamed declaration goes first, so that
			// a like-named variable elsewhere in the function is not taken for it
			if nn, ok := e.aliasOf(name); ok {
				if v, ok := e.fr.lookupLocal(e.st, nn); ok {
					return v
				}
			}
		}
		if v, ok := e.fr.lookupLocal(e.st, name); ok {
			e.recordLocal(name)
			return v
		}
		if nn, ok := e.aliasOf(name); ok {
			if v, ok := e.fr.lookupLocal(e.st, nn); ok {
				return v
			}
		}
	}
	if e.pkg != nil {
		if v, ok := e.lookupPkgObj(e.pkg, name); ok {
			return v
		}
	}
	if gt, ok := e.x.prog.contracts.GhostVars[name]; ok {
		srt, _ := ghostSort(gt)
		return Val{C: []*T{e.st.heapGet("Ghost_heap_"+name, srt)}}
	}
	// nullary pure function / ghost global
	if p, ok := e.x.prog.contracts.Pures[name]; ok && len(p.Params) == 0 {
		return e.applyPure(p, nil)
	}
	// a variable of an enclosing function that this closure does not (or no longer) capture: the clause still means
	// that variable, whose value is unknown here
	if e.fr != nil {
		for par := e.fr.fn.Parent(); par != nil; par = par.Parent() {
			var t types.Type
			for _, prm := range par.Params {
				if prm.Name() == name {
					t = prm.Type()
				}
			}
			if t == nil {
				for _, fv := range par.FreeVars {
					if fv.Name() == name {
						t = deref(fv.Type())
					}
				}
			}
			if t == nil {
				for _, b := range par.Blocks {
					for _, ins := range b.Instrs {
						if a, ok := ins.(*ssa.Alloc); ok && a.Comment == name && t == nil {
							t = deref(a.Type())
						}
					}
				}
			}
			if t != nil {
				if e.x.outerVars == nil {
					e.x.outerVars = map[string]Val{}
				}
				if v, ok := e.x.outerVars[name]; ok {
					return v
				}
				v := e.x.entry.freshVal(t, "outer_"+sanitize(name))
				e.x.outerVars[name] = v
				e.x.noteAbstraction("clause names " + name + ", a variable of the enclosing function that this closure does not capture: treated as an unknown value")
				return v
			}
		}
	}
	e.fail("unknown identifier %q", name)
	return Val{}
}

func (e *Env) lookupPkgObj(pkg *types.Package, name string) (Val, bool) {
	obj := pkg.Scope().Lookup(name)
	if obj == nil {
		return Val{}, false
	}
	switch o := obj.(type) {
	case *types.Const:
		return e.x.constVal(o.Type(), o.Val()), true
	case *types.Var:
		sp := e.x.prog.ssaPkgOf(pkg)
		if sp == nil {
			return Val{}, false
		}
		if g, ok := sp.Members[name].(*ssa.Global); ok {
			return e.st.loadGlobal(g), true
		}
	}
	return Val{}, false
}

func (e *Env) evalSelector(n *ast.SelectorExpr) Val {
	// package-qualified?
	if id, ok := n.X.(*ast.Ident); ok && e.pkg != nil {
		if _, isVar := e.bound[id.Name]; !isVar {
			if _, isVar2 := e.vars[id.Name]; !isVar2 {
				known := false
				if e.fr != nil {
					_, known = e.fr.lookupLocal(e.st, id.Name)
				}
				if !known && id.Name == e.pkg.Name() {
					// an extern spec naming an object of the callee's own package (e.g. base64.StdEncoding)
					if v, ok := e.lookupPkgObj(e.pkg, n.Sel.Name); ok {
						return v
					}
				}
				if !known {
					for _, imp := range e.x.prog.importsOf(e.pkg) {
						if imp.Name() == id.Name {
							if v, ok := e.lookupPkgObj(imp, n.Sel.Name); ok {
								return v
							}
							e.fail("unknown %s.%s", id.Name, n.Sel.Name)
						}
					}
				}
			}
		}
	}
	x := e.eval(n.X)
	return e.selectField(x, n.Sel.Name)
}

func (e *Env) selectField(x Val, name string) Val {
	if x.Typ == nil {
		e.fail("field %s of untyped value", name)
	}
	t := x.Typ
	if p, ok := t.Underlying().(*types.Pointer); ok {
		st := p.Elem()
		s, ok := st.Underlying().(*types.Struct)
		if !ok {
			e.fail("field %s of non-struct pointer %v", name, t)
		}
		for i := 0; i < s.NumFields(); i++ {
			if s.Field(i).Name() == name {
				if isStruct(s.Field(i).Type()) {
					// pointer-like handle to nested struct: yield the struct value
					return e.st.loadFieldOf(x.C[0], st, i)
				}
				return e.st.loadFieldOf(x.C[0], st, i)
			}
		}
		// promoted through embedded pointer/struct fields
		for i := 0; i < s.NumFields(); i++ {
			if s.Field(i).Embedded() {
				sub := e.st.loadFieldOf(x.C[0], st, i)
				if structOf(sub.Typ) != nil {
					if hasField(structOf(sub.Typ), name) {
						return e.selectField(sub, name)
					}
				}
			}
		}
		e.fail("no field %s in %v", name, st)
	}
	if s, ok := t.Underlying().(*types.Struct); ok {
		for i := 0; i < s.NumFields(); i++ {
			if s.Field(i).Name() == name {
				lo, hi := fieldRange(s, i)
				return Val{Typ: s.Field(i).Type(), C: x.C[lo:hi]}
			}
		}
		e.fail("no field %s in %v", name, t)
	}
	e.fail("field %s of %v", name, t)
	return Val{}
}

func hasField(s *types.Struct, name string) bool {
	for i := 0; i < s.NumFields(); i++ {
		if s.Field(i).Name() == name {
			return true
		}
	}
	return false
}

func (e *Env) evalBinary(n *ast.BinaryExpr) Val {
	switch n.Op {
	case token.LAND:
		return boolVal(And(e.eval(n.X).T(), e.eval(n.Y).T()))
	case token.LOR:
		return boolVal(Or(e.eval(n.X).T(), e.eval(n.Y).T()))
	}
	a := e.eval(n.X)
	b := e.eval(n.Y)
	switch n.Op {
	case token.EQL, token.NEQ:
		eq := e.valEq(a, b)
		if n.Op == token.NEQ {
			eq = Not(eq)
		}
		return boolVal(eq)
	}
	at, bt := a.T(), b.T()
	if at.S == SReal && bt.S == SInt {
		bt = App("to_real", SReal, bt)
	}
	if bt.S == SReal && at.S == SInt {
		at = App("to_real", SReal, at)
	}
	rt := a.Typ
	if at.S == SReal {
		rt = types.Typ[types.Float64]
	} else if at.S == SInt {
		rt = types.Typ[types.Int]
	}
	switch n.Op {
	case token.ADD:
		if at.S == SStr {
			return strVal(e.st.sconcat(at, bt))
		}
		return Val{Typ: rt, C: []*T{Add(at, bt)}}
	case token.SUB:
		return Val{Typ: rt, C: []*T{Sub(at, bt)}}
	case token.MUL:
		return Val{Typ: rt, C: []*T{Mul(at, bt)}}
	case token.QUO:
		if at.S == SReal {
			return Val{Typ: rt, C: []*T{App("/", SReal, at, bt)}}
		}
		return Val{Typ: rt, C: []*T{App("div", SInt, at, bt)}}
	case token.REM:
		return Val{Typ: rt, C: []*T{App("mod", SInt, at, bt)}}
	case token.LSS:
		return boolVal(Lt(at, bt))
	case token.LEQ:
		return boolVal(Le(at, bt))
	case token.GTR:
		return boolVal(Gt(at, bt))
	case token.GEQ:
		return boolVal(Ge(at, bt))
	}
	e.fail("unsupported binary operator %s", n.Op)
	return Val{}
}

func (e *Env) valEq(a, b Val) *T {
	if len(a.C) != len(b.C) {
		// nil against multi-component (slice == nil)
		if len(b.C) == 1 && len(a.C) == 4 {
			return Eq(a.C[0], IntLit(0))
		}
		if len(a.C) == 1 && len(b.C) == 4 {
			return Eq(b.C[0], IntLit(0))
		}
		e.fail("comparison of values with different layouts (%v vs %v)", a.Typ, b.Typ)
	}
	var cs []*T
	for i := range a.C {
		x, y := a.C[i], b.C[i]
		if x.S == SReal && y.S == SInt {
			y = App("to_real", SReal, y)
		}
		if y.S == SReal && x.S == SInt {
			x = App("to_real", SReal, x)
		}
		cs = append(cs, Eq(x, y))
	}
	return And(cs...)
}

func (e *Env) evalIndex(n *ast.IndexExpr) Val {
	x := e.eval(n.X)
	i := e.eval(n.Index)
	if x.Typ == nil {
		// ghost array
		if len(x.C) == 1 && x.C[0].S.IsArray() {
			return Val{C: []*T{Select(x.C[0], i.T())}}
		}
		e.fail("index of non-array ghost")
	}
	switch u := x.Typ.Underlying().(type) {
	case *types.Slice:
		return e.st.loadElem(x.C[0], Add(x.C[1], i.T()), u.Elem())
	case *types.Map:
		return e.st.mapGet(x.C[0], i.T(), u)
	}
	e.fail("index of %v", x.Typ)
	return Val{}
}

// goTypeResolver resolves Go type names in ghost declarations (set per verification unit).
var goTypeResolver func(string) types.Type

func ghostSort(ty string) (Sort, types.Type) {
	if goTypeResolver != nil && (strings.HasPrefix(ty, "*") || strings.Contains(ty, ".")) && !strings.HasPrefix(ty, "map[") && !strings.HasPrefix(ty, "seq[") {
		if t := goTypeResolver(ty); t != nil {
			l := Layout(t)
			if len(l) >= 1 {
				return l[0].S, t
			}
		}
	}
	switch ty {
	case "[]byte":
		return SInt, types.NewSlice(types.Typ[types.Uint8])
	case "[]string":
		return SInt, types.NewSlice(types.Typ[types.String])
	case "int":
		return SInt, types.Typ[types.Int]
	case "bool":
		return SBool, types.Typ[types.Bool]
	case "string":
		return SStr, types.Typ[types.String]
	case "ref":
		return SInt, nil
	case "real":
		return SReal, types.Typ[types.Float64]
	}
	if strings.HasPrefix(ty, "map[") {
		i := matchClose(ty, 3)
		k, _ := ghostSort(ty[4:i])
		v, _ := ghostSort(ty[i+1:])
		return ArrSort(k, v), nil
	}
	if strings.HasPrefix(ty, "seq[") {
		i := matchClose(ty, 3)
		v, _ := ghostSort(ty[4:i])
		return ArrSort(SInt, v), nil
	}
	panic(evalError{"unknown ghost type " + ty})
}

func (e *Env) applyPure(p *PureFn, args []Val) Val {
	rs, rt := ghostSort(p.Ret)
	if p.Body == "" {
		var ts []*T
		for _, a := range args {
			ts = append(ts, a.C...)
		}
		if len(ts) == 0 {
			return Val{Typ: rt, C: []*T{Sym("pure_"+p.Name, rs)}}
		}
		return Val{Typ: rt, C: []*T{App("pure_"+p.Name, rs, ts...)}}
	}
	if e.depth > 20 {
		e.fail("pure function recursion too deep in %s", p.Name)
	}
	if p.Opaque {
		return e.applyOpaque(p, args, rs, rt)
	}
	n := *e
	n.depth++
	n.bound = map[string]Val{}
	for k, v := range e.bound {
		n.bound[k] = v
	}
	for i, pn := range p.Params {
		n.bound[pn] = args[i]
	}
	ex, err := parseSpecExpr(p.Body)
	if err != nil {
		e.fail("%v", err)
	}
	return n.eval(ex)
}

func (e *Env) evalCall(n *ast.CallExpr) Val {
	fname := ""
	switch f := n.Fun.(type) {
	case *ast.Ident:
		fname = f.Name
	case *ast.SelectorExpr:
		if id, ok := f.X.(*ast.Ident); ok {
			fname = id.Name + "." + f.Sel.Name
		}
	}
	arg := func(i int) Val { return e.eval(n.Args[i]) }
	switch fname {
	case "implies":
		return boolVal(Implies(arg(0).T(), arg(1).T()))
	case "iff":
		return boolVal(Eq(arg(0).T(), arg(1).T()))
	case "ite":
		c := arg(0).T()
		a, b := arg(1), arg(2)
		out := Val{Typ: a.Typ}
		for i := range a.C {
			out.C = append(out.C, Ite(c, a.C[i], b.C[i]))
		}
		return out
	case "old":
		if e.old == nil {
			e.fail("old() not available here")
		}
		n2 := *e
		n2.st = e.old
		return n2.eval(n.Args[0])
	case "len":
		x := arg(0)
		if x.Typ != nil {
			switch u := x.Typ.Underlying().(type) {
			case *types.Slice:
				return intVal(x.C[2])
			case *types.Basic:
				if u.Info()&types.IsString != 0 {
					return intVal(e.st.slen(x.T()))
				}
			case *types.Map:
				return intVal(e.st.mapLen(x.T(), u))
			}
		}
		if x.T().S == SStr {
			return intVal(e.st.slen(x.T()))
		}
		e.fail("len of %v", x.Typ)
	case "cap":
		x := arg(0)
		return intVal(x.C[3])
	case "base":
		return Val{C: []*T{arg(0).C[0]}}
	case "off":
		return intVal(arg(0).C[1])
	case "min":
		a, b := arg(0).T(), arg(1).T()
		return intVal(Ite(Le(a, b), a, b))
	case "max":
		a, b := arg(0).T(), arg(1).T()
		return intVal(Ite(Ge(a, b), a, b))
	case "forall", "exists":
		// forall(k, lo, hi, body)
		id, ok := n.Args[0].(*ast.Ident)
		if !ok || len(n.Args) != 4 {
			e.fail("%s(k, lo, hi, body)", fname)
		}
		k := Sym(id.Name+"!q", SInt)
		lo, hi := arg(1).T(), arg(2).T()
		body := e.with(id.Name, intVal(k)).eval(n.Args[3]).T()
		rng := And(Le(lo, k), Lt(k, hi))
		k, rng, body = reindexQuant(k, rng, body)
		if fname == "forall" {
			return boolVal(Forall([]*T{k}, Implies(rng, body)))
		}
		return boolVal(Exists([]*T{k}, And(rng, body)))
	case "forall_int", "forall_str", "exists_int", "exists_str", "forall_ref", "exists_ref":
		id, ok := n.Args[0].(*ast.Ident)
		if !ok || len(n.Args) != 2 {
			e.fail("%s(k, body)", fname)
		}
		var v Val
		var k *T
		switch {
		case strings.HasSuffix(fname, "_str"):
			k = Sym(id.Name+"!q", SStr)
			v = strVal(k)
		default:
			k = Sym(id.Name+"!q", SInt)
			v = intVal(k)
		}
		body := e.with(id.Name, v).eval(n.Args[1]).T()
		if strings.HasPrefix(fname, "forall") {
			return boolVal(Forall([]*T{k}, body))
		}
		return boolVal(Exists([]*T{k}, body))
	case "in":
		// in(k, m): key k in map m
		k, m := arg(0), arg(1)
		if m.Typ == nil {
			return boolVal(Select(m.T(), k.T()))
		}
		mt, ok := m.Typ.Underlying().(*types.Map)
		if !ok {
			e.fail("in(k, m): m is not a map")
		}
		return boolVal(e.st.mapHas(m.T(), k.T(), mt))
	case "hasPrefix":
		return boolVal(e.st.hasPrefix(arg(0).T(), arg(1).T()))
	case "contains":
		return boolVal(e.st.contains(arg(0).T(), arg(1).T()))
	case "cutPrefix":
		return strVal(App("cutPrefix", SStr, arg(0).T(), arg(1).T()))
	case "lower":
		return strVal(e.st.strFn("lower", arg(0).T()))
	case "canon":
		return strVal(e.st.strFn("canon", arg(0).T()))
	case "string", "str":
		x := arg(0)
		if len(x.C) == 4 {
			return strVal(e.st.strOfBytes(x))
		}
		return x
	case "int", "int64", "uint", "uint64":
		x := arg(0)
		return Val{Typ: types.Typ[types.Int], C: x.C}
	case "real":
		x := arg(0).T()
		if x.S == SInt {
			x = App("to_real", SReal, x)
		}
		return Val{Typ: types.Typ[types.Float64], C: []*T{x}}
	case "f64":
		// f64(lit): the float64 nearest to a literal, as an exact rational
		lit, ok := n.Args[0].(*ast.BasicLit)
		if !ok {
			e.fail("f64(literal)")
		}
		f, err := strconv.ParseFloat(lit.Value, 64)
		if err != nil {
			e.fail("f64: %v", err)
		}
		r := new(big.Rat)
		r.SetFloat64(f)
		return Val{Typ: types.Typ[types.Float64], C: []*T{RealLit(r)}}
	case "fresh":
		// fresh(x): x was not allocated in the old state (slices: nil or freshly allocated backing array)
		if e.old == nil {
			e.fail("fresh() needs an old state")
		}
		v := arg(0)
		oldAlloc := e.old.heapGet("Alloc", ArrSort(SInt, SBool))
		if len(v.C) == 4 {
			return boolVal(Or(Eq(v.C[0], IntLit(0)), Not(Select(oldAlloc, v.C[0]))))
		}
		return boolVal(And(Ne(v.C[0], IntLit(0)), Not(Select(oldAlloc, v.C[0]))))
	case "hexOf", "b64Of":
		v := arg(0)
		sl, ok := v.Typ.Underlying().(*types.Slice)
		if !ok {
			e.fail("%s of non-slice", fname)
		}
		el := e.st.elemsOf(v.C[0], sl.Elem())
		r := App(fname, SStr, el[0], v.C[1], v.C[2])
		return strVal(r)
	case "seqeq":
		// seqeq(a, b): slices with equal length and contents
		a, b := arg(0), arg(1)
		return boolVal(e.st.seqEq(a, b))
	case "held":
		// held(x.mu): lock state of the mutex stored in (or embedded as) field mu of object x
		if sel, ok := n.Args[0].(*ast.SelectorExpr); ok {
			xv := e.eval(sel.X)
			if xv.Typ != nil {
				if stru := structOf(xv.Typ); stru != nil {
					for i := 0; i < stru.NumFields(); i++ {
						if stru.Field(i).Name() == sel.Sel.Name && isStruct(stru.Field(i).Type()) {
							m := e.st.subRef(xv.C[0], deref(xv.Typ), i)
							return boolVal(Select(e.st.heapGet("Held", ArrSort(SInt, SBool)), m))
						}
					}
				}
			}
		}
		mu := arg(0)
		return boolVal(Select(e.st.heapGet("Held", ArrSort(SInt, SBool)), mu.C[0]))
	case "allocated0":
		return boolVal(Select(Sym("Alloc!0", ArrSort(SInt, SBool)), arg(0).C[0]))
	case "allocated":
		return boolVal(Select(e.st.heapGet("Alloc", ArrSort(SInt, SBool)), arg(0).C[0]))
	case "chcap":
		return intVal(Select(e.st.heapGet("ChCap", ArrSort(SInt, SInt)), arg(0).C[0]))
	case "chlen":
		return intVal(Select(e.st.heapGet("ChLen", ArrSort(SInt, SInt)), arg(0).C[0]))
	case "closed":
		return boolVal(Select(e.st.heapGet("ChClosed", ArrSort(SInt, SBool)), arg(0).C[0]))
	case "values":
		// values(h, key): h.Values(key) - the value slice under the canonical key, nil when absent
		h, k := arg(0), arg(1)
		mt, ok := h.Typ.Underlying().(*types.Map)
		if !ok {
			e.fail("values(h, key): h is not a header map")
		}
		ck := e.st.strFn("canon", k.T())
		has := And(Ne(h.T(), IntLit(0)), e.st.mapHas(h.T(), ck, mt))
		vs := e.st.mapGet(h.T(), ck, mt)
		out := Val{Typ: mt.Elem()}
		for i := range vs.C {
			out.C = append(out.C, Ite(has, vs.C[i], IntLit(0)))
		}
		return out
	case "hget":
		// hget(h, key): h.Get(key)
		h, k := arg(0), arg(1)
		return e.x.headerGet(e.st, h, k.T())
	case "sprintf":
		// sprintf(format, a, b...): the value fmt.Sprintf yields for these (scalar) arguments
		var args []*T
		for i := range n.Args {
			v := arg(i)
			if i == 0 {
				args = append(args, v.T())
				continue
			}
			tag := e.x.prog.typeTag(v.Typ)
			e.x.prog.noteTagSort(tag, v.T().S)
			args = append(args, App(fmt.Sprintf("mkiface_%d", tag), SInt, v.T()))
		}
		return strVal(App(fmt.Sprintf("sprintf_%d", len(n.Args)-1), SStr, args...))
	case "ifaceStrs":
		// ifaceStrs(x): the []string boxed in interface value x
		st := types.NewSlice(types.Typ[types.String])
		tag := e.x.prog.typeTag(st)
		out := Val{Typ: st}
		for i := 0; i < 4; i++ {
			out.C = append(out.C, App(fmt.Sprintf("ipay_%d_%d", tag, i), SInt, arg(0).T()))
		}
		return out
	case "ifaceAnys":
		st := types.NewSlice(types.NewInterfaceType(nil, nil))
		tag := e.x.prog.typeTag(st)
		out := Val{Typ: st}
		for i := 0; i < 4; i++ {
			out.C = append(out.C, App(fmt.Sprintf("ipay_%d_%d", tag, i), SInt, arg(0).T()))
		}
		return out
	case "pre":
		// pre(e): e evaluated in the state in which the enclosing loop was entered (before its first iteration)
		if e.loopPre == nil {
			e.fail("pre() is only available in loop invariants")
		}
		n2 := *e
		n2.st = e.loopPre
		return n2.eval(n.Args[0])
	case "preOf":
		// preOf(N, e): e evaluated in the state in which loop N was most recently entered on this path (before its first iteration)
		lit, ok := n.Args[0].(*ast.BasicLit)
		if !ok || e.fr == nil {
			e.fail("preOf(N, expr) needs a literal loop ordinal")
		}
		ord, _ := strconv.Atoi(lit.Value)
		var pst *State
		for h, o := range e.fr.loops.ordinal {
			if o == ord {
				pst = e.fr.loopPre[h]
			}
		}
		if pst == nil {
			e.fail("preOf(%d, ...): loop %d has not been entered on this path", ord, ord)
		}
		n2 := *e
		n2.st = pst
		return n2.eval(n.Args[1])
	case "unboxRef":
		// unboxRef(x, "T"): the reference (pointer, map, chan) boxed in interface value x, for dynamic type T
		lit, ok := n.Args[1].(*ast.BasicLit)
		if !ok {
			e.fail("unboxRef(x, \"type\")")
		}
		name, _ := strconv.Unquote(lit.Value)
		ut := e.x.prog.resolveGoType(e.pkg, name)
		if ut == nil {
			e.fail("unboxRef: unknown type %q", name)
		}
		tag := e.x.prog.typeTag(ut)
		return Val{C: []*T{App(fmt.Sprintf("ipay_%d_0", tag), SInt, arg(0).T())}}
	case "ifaceStr":
		// ifaceStr(x): the string boxed in interface value x
		tag := e.x.prog.typeTag(types.Typ[types.String])
		return strVal(App(fmt.Sprintf("ipay_%d_0", tag), SStr, arg(0).T()))
	case "implements":
		// implements(x, "I"): the dynamic type of interface value x implements interface type I
		lit, ok := n.Args[1].(*ast.BasicLit)
		if !ok {
			e.fail("implements(x, \"iface\")")
		}
		name, _ := strconv.Unquote(lit.Value)
		t := e.x.prog.resolveGoType(e.pkg, name)
		if t == nil {
			e.fail("implements: unknown type %s", name)
		}
		return boolVal(App("implements_"+typeKey(t), SBool, App("itype", SInt, arg(0).T())))
	case "box":
		// box(x): the interface value holding scalar/pointer x (as MakeInterface builds it)
		v := arg(0)
		if len(v.C) != 1 || v.Typ == nil {
			e.fail("box() of a non-scalar")
		}
		tag := e.x.prog.typeTag(v.Typ)
		e.x.prog.noteTagSort(tag, v.C[0].S)
		return Val{C: []*T{App(fmt.Sprintf("mkiface_%d", tag), SInt, v.C[0])}}
	case "cast":
		// cast(ref, "T"): view a reference as a value of Go type T (resolved in the package under verification)
		lit, ok := n.Args[1].(*ast.BasicLit)
		if !ok {
			e.fail("cast(x, \"type\")")
		}
		name, _ := strconv.Unquote(lit.Value)
		t := e.x.prog.resolveGoType(e.pkg, name)
		if t == nil {
			e.fail("cast: unknown type %s", name)
		}
		return Val{Typ: t, C: []*T{arg(0).C[0]}}
	case "asConn":
		// asConn(ref): view a reference as *Connection of the package under verification
		v := arg(0)
		if e.pkg != nil {
			if obj := e.pkg.Scope().Lookup("Connection"); obj != nil {
				return Val{Typ: types.NewPointer(obj.Type()), C: []*T{v.C[0]}}
			}
		}
		e.fail("asConn: no type Connection in this package")
	case "asHeader":
		// asHeader(ref): view a reference as an http.Header (map[string][]string)
		v := arg(0)
		return Val{Typ: types.NewMap(types.Typ[types.String], types.NewSlice(types.Typ[types.String])), C: []*T{v.C[0]}}
	case "typeis":
		// typeis(x, "pkg.Type"): dynamic type test of interface value
		lit, ok := n.Args[1].(*ast.BasicLit)
		if !ok {
			e.fail("typeis(x, \"type\")")
		}
		name, _ := strconv.Unquote(lit.Value)
		tt := e.x.prog.resolveGoType(e.pkg, name)
		if tt == nil {
			e.fail("typeis: unknown type %q", name)
		}
		return boolVal(Eq(App("itype", SInt, arg(0).T()), IntLit(int64(e.x.prog.typeTag(tt)))))
	}
	if fname != "" {
		if p, ok := e.x.prog.contracts.Pures[fname]; ok {
			var args []Val
			for i := range n.Args {
				args = append(args, arg(i))
			}
			if len(args) != len(p.Params) {
				e.fail("pure %s expects %d args", fname, len(p.Params))
			}
			return e.applyPure(p, args)
		}
	}
	e.fail("unknown spec function %q", fname)
	return Val{}
}

// --- string theory helpers (uninterpreted, with per-use facts) ---

func (s *State) slen(t *T) *T {
	if n, ok := s.X.prog.litLen(t); ok {
		return IntLit(int64(n))
	}
	l := App("slen", SInt, t)
	s.Assume(Ge(l, IntLit(0)))
	return l
}

func (s *State) sconcat(a, b *T) *T {
	if x, ok := s.X.prog.litVal(a); ok {
		if y, ok := s.X.prog.litVal(b); ok {
			return s.X.prog.strLit(x + y)
		}
		if x == "" {
			return b
		}
	}
	if y, ok := s.X.prog.litVal(b); ok && y == "" {
		return a
	}
	c := App("sconcat", SStr, a, b)
	s.Assume(Eq(App("slen", SInt, c), Add(s.slen(a), s.slen(b))))
	return c
}

func (s *State) hasPrefix(a, b *T) *T {
	if x, ok := s.X.prog.litVal(a); ok {
		if y, ok := s.X.prog.litVal(b); ok {
			if strings.HasPrefix(x, y) {
				return True
			}
			return False
		}
	}
	if y, ok := s.X.prog.litVal(b); ok && y == "" {
		return True
	}
	h := App("hasPrefix", SBool, a, b)
	s.Assume(Implies(h, Le(s.slen(b), s.slen(a))))
	return h
}

func (s *State) contains(a, b *T) *T {
	if x, ok := s.X.prog.litVal(a); ok {
		if y, ok := s.X.prog.litVal(b); ok {
			if strings.Contains(x, y) {
				return True
			}
			return False
		}
	}
	return App("contains", SBool, a, b)
}

func (s *State) strFn(name string, a *T) *T {
	if x, ok := s.X.prog.litVal(a); ok {
		switch name {
		case "lower":
			return s.X.prog.strLit(strings.ToLower(x))
		case "canon":
			return s.X.prog.strLit(canonicalHeaderKey(x))
		}
	}
	r := App(name, SStr, a)
	// idempotence
	s.Assume(Eq(App(name, SStr, r), r))
	return r
}

func (s *State) seqEq(a, b Val) *T {
	as, ok1 := a.Typ.Underlying().(*types.Slice)
	_, ok2 := b.Typ.Underlying().(*types.Slice)
	if !ok1 || !ok2 {
		panic(evalError{"seqeq on non-slices"})
	}
	k := Sym("k!se", SInt)
	ea := s.elemsOf(a.C[0], as.Elem())
	eb := s.elemsOf(b.C[0], as.Elem())
	var cs []*T
	for i := range ea {
		cs = append(cs, Eq(Select(ea[i], Add(a.C[1], k)), Select(eb[i], Add(b.C[1], k))))
	}
	return And(Eq(a.C[2], b.C[2]), Forall([]*T{k}, Implies(And(Le(IntLit(0), k), Lt(k, a.C[2])), And(cs...))))
}

func (s *State) mapLen(m *T, mt *types.Map) *T {
	l := App("maplen_"+typeKey(mt), SInt, s.mapDom(m, mt))
	s.Assume(Ge(l, IntLit(0)))
	return l
}

// strOfBytes models string(b) for a byte slice value.
func (s *State) strOfBytes(b Val) *T {
	sl := b.Typ.Underlying().(*types.Slice)
	el := s.elemsOf(b.C[0], sl.Elem())
	r := App("strOf", SStr, el[0], b.C[1], b.C[2])
	s.Assume(Eq(App("slen", SInt, r), b.C[2]))
	return r
}


// reindexQuant rewrites a bounded quantifier so that the first array read whose index is (A + k) with A free of k
// is indexed by the bound variable itself: E-matching cannot match arithmetic in triggers.
func reindexQuant(k, rng, body *T) (*T, *T, *T) {
	var offset *T
	var find func(t *T)
	find = func(t *T) {
		if offset != nil {
			return
		}
		if t.Op == "select" && len(t.Args) == 2 {
			idx := t.Args[1]
			if idx.Op == "+" && len(idx.Args) == 2 {
				a, b := idx.Args[0], idx.Args[1]
				if b == k && !mentions(a, k.Op) {
					offset = a
					return
				}
				if a == k && !mentions(b, k.Op) {
					offset = b
					return
				}
			}
		}
		for _, a := range t.Args {
			find(a)
		}
	}
	find(body)
	if offset == nil {
		return k, rng, body
	}
	if n, ok := offset.IsIntLit(); ok && n == 0 {
		return k, rng, body
	}
	j := Sym(k.Op+"j", SInt)
	// replace (A + k) / (k + A) by j, remaining k by (j - A)
	var rw func(t *T) *T
	rw = func(t *T) *T {
		if t.Op == "+" && len(t.Args) == 2 {
			if (t.Args[1] == k && t.Args[0].String() == offset.String()) || (t.Args[0] == k && t.Args[1].String() == offset.String()) {
				return j
			}
		}
		if t == k {
			return Sub(j, offset)
		}
		if len(t.Args) == 0 {
			return t
		}
		if t.Vars != nil {
			return &T{Op: t.Op, Vars: t.Vars, Args: []*T{rw(t.Args[0])}, S: t.S}
		}
		args := make([]*T, len(t.Args))
		ch := false
		for i, a := range t.Args {
			args[i] = rw(a)
			if args[i] != a {
				ch = true
			}
		}
		if !ch {
			return t
		}
		return &T{Op: t.Op, Args: args, S: t.S}
	}
	return j, rw(rng), rw(body)
}

func mentions(t *T, name string) bool {
	if len(t.Args) == 0 {
		return t.Op == name
	}
	for _, a := range t.Args {
		if mentions(a, name) {
			return true
		}
	}
	return false
}


// applyOpaque renders a spec function as an uninterpreted function specialised to the heap terms its body reads
// in the current state, with a definitional axiom (forall params. f(params) = body) triggered on f(params).
func (e *Env) applyOpaque(p *PureFn, args []Val, rs Sort, rt types.Type) Val {
	n := *e
	n.depth++
	if e.st != nil {
		n.st = e.st.Clone()
	}
	n.bound = map[string]Val{}
	for k, v := range e.bound {
		n.bound[k] = v
	}
	var params []*T
	for i, pn := range p.Params {
		pv := Val{Typ: args[i].Typ, Addr: args[i].Addr}
		for j, c := range args[i].C {
			s := Sym(fmt.Sprintf("%s!%s%d", p.Name, pn, j), c.S)
			pv.C = append(pv.C, s)
			params = append(params, s)
		}
		n.bound[pn] = pv
	}
	ex, err := parseSpecExpr(p.Body)
	if err != nil {
		e.fail("%v", err)
	}
	body := n.eval(ex)
	if len(body.C) != 1 {
		e.fail("spec function %s must return a scalar", p.Name)
	}
	bt := body.C[0]
	h := fnvHash(bt.String())
	fname := fmt.Sprintf("pf_%s_%s", p.Name, h)
	var actual []*T
	for _, a := range args {
		actual = append(actual, a.C...)
	}
	if len(params) == 0 {
		return Val{Typ: rt, C: []*T{bt}}
	}
	app := App(fname, bt.S, params...)
	if _, ok := e.x.prog.defAxioms[fname]; !ok {
		e.x.prog.defAxioms[fname] = Forall(params, pattern(Eq(app, bt), app))
	}
	_ = rs
	return Val{Typ: rt, C: []*T{App(fname, bt.S, actual...)}}
}

func fnvHash(s string) string {
	var h uint64 = 14695981039346656037
	for i := 0; i < len(s); i++ {
		h ^= uint64(s[i])
		h *= 1099511628211
	}
	return strconv.FormatUint(h, 36)
}
