package main

import (
	"bufio"
	"fmt"
	"os"
	"regexp"
	"strconv"
	"strings"
)

type Clause struct {
	Props []string
	Label string
	Expr  string
	File  string
	Line  int
}

type LoopContract struct {
	N          int
	At         string // optional anchor: text of the loop header; binds the contract to that loop whatever its ordinal
	Invariants []*Clause
	Assigns    []string // optional loop frame: only these locations change in the loop (checked at every back edge)
	HasAssigns bool
}

type DoStmt struct {
	Name string
	Expr string
	Line int
}

type CallHook struct {
	Pattern string
	Kind    string // "call", "go", "defer", "send", "recv", "close", "return"
	Asserts []*Clause
	Dos     []*DoStmt
	Havocs  []string  // locations forgotten after the event (effects of library code that contracts cannot name)
	Assumes []*Clause // only honoured in extern specs / trusted hooks (listed as assumptions)
}

type GhostDecl struct {
	Name string
	Type string
	Init string
}

type FuncContract struct {
	At         string // optional anchor for closures: a source snippet of the body; binds the contract whatever the closure's ordinal
	Key        string
	PkgPath    string // package of the contract file; "" for extern specs
	Extern     bool
	Props      []string
	Params     []string
	Results    []string
	Requires   []*Clause
	Ensures    []*Clause
	Assigns    []string
	HasAssigns bool
	Ghosts     []*GhostDecl
	Loops      map[int]*LoopContract
	Hooks      []*CallHook
	Flags      map[string]bool
	GoOpaque   []string
	File       string
	Line       int
	Used       bool
	Locals     map[string][]localDesc // name-independent descriptions of the locals the clauses name (locals.go)
}

type TypeContract struct {
	Name       string
	PkgPath    string
	Invariants []*Clause
	Guarded    map[string]string // field -> mutex field
	Shared     bool
}

type PureFn struct {
	Name    string
	Params  []string
	PTypes  []string
	Ret     string
	Body    string
	PkgPath string
	File    string
	Line    int
	Opaque  bool // emitted as an uninterpreted function with a definitional axiom (good E-matching triggers)
}

type Axiom struct {
	Name    string
	Expr    string
	PkgPath string
	File    string
	Line    int
	Lemma   bool
}

type ContractSet struct {
	GhostVars map[string]string // name -> ghost type
	Funcs  map[string]*FuncContract // key: pkgpath + "::" + short key, or extern key
	Types  map[string]*TypeContract
	Pures  map[string]*PureFn
	Axioms []*Axiom
	Files  []string
}

func NewContractSet() *ContractSet {
	return &ContractSet{GhostVars: map[string]string{}, Funcs: map[string]*FuncContract{}, Types: map[string]*TypeContract{}, Pures: map[string]*PureFn{}}
}

var clauseRe = regexp.MustCompile(`^(requires|ensures|invariant|assert|assume)(\[([^\]]*)\])?\s+(.*)$`)

func parseClause(rest string, file string, line int) (*Clause, error) {
	m := clauseRe.FindStringSubmatch(rest)
	if m == nil {
		return nil, fmt.Errorf("%s:%d: malformed clause %q", file, line, rest)
	}
	c := &Clause{Expr: strings.TrimSpace(m[4]), File: file, Line: line}
	if m[3] != "" {
		parts := strings.SplitN(m[3], ":", 2)
		if len(parts) == 2 {
			for _, p := range strings.Split(parts[0], ",") {
				if p = strings.TrimSpace(p); p != "" {
					c.Props = append(c.Props, p)
				}
			}
			c.Label = strings.TrimSpace(parts[1])
		} else {
			c.Label = strings.TrimSpace(parts[0])
		}
	}
	return c, nil
}

// splitTop splits on whitespace at paren depth 0.
func splitTop(s string) []string {
	var out []string
	depth := 0
	cur := strings.Builder{}
	for _, c := range s {
		switch {
		case c == '(' || c == '[':
			depth++
			cur.WriteRune(c)
		case c == ')' || c == ']':
			depth--
			cur.WriteRune(c)
		case (c == ' ' || c == '\t') && depth == 0:
			if cur.Len() > 0 {
				out = append(out, cur.String())
				cur.Reset()
			}
		default:
			cur.WriteRune(c)
		}
	}
	if cur.Len() > 0 {
		out = append(out, cur.String())
	}
	return out
}

func parseList(tok, prefix string) ([]string, bool) {
	if !strings.HasPrefix(tok, prefix+"(") || !strings.HasSuffix(tok, ")") {
		return nil, false
	}
	inner := tok[len(prefix)+1 : len(tok)-1]
	var out []string
	for _, p := range strings.Split(inner, ",") {
		if p = strings.TrimSpace(p); p != "" {
			out = append(out, p)
		}
	}
	return out, true
}

// ParseContractFile parses //@ directives from a Go comment-only file or a .spec file.
func (cs *ContractSet) ParseFile(path, pkgPath string) error {
	f, err := os.Open(path)
	if err != nil {
		return err
	}
	defer f.Close()
	cs.Files = append(cs.Files, path)
	sc := bufio.NewScanner(f)
	sc.Buffer(make([]byte, 1<<20), 1<<20)
	var curFn *FuncContract
	var curTy *TypeContract
	var curLoop *LoopContract
	var curHook *CallHook
	var lastExpr *string
	line := 0
	for sc.Scan() {
		line++
		raw := sc.Text()
		t := strings.TrimSpace(raw)
		if !strings.HasPrefix(t, "//@") {
			continue
		}
		t = strings.TrimSpace(strings.TrimPrefix(t, "//@"))
		if t == "" || strings.HasPrefix(t, "#") {
			continue
		}
		if i := strings.Index(t, " //#"); i >= 0 { // trailing comment marker
			t = strings.TrimSpace(t[:i])
		}
		if strings.HasPrefix(t, "|") {
			if lastExpr == nil {
				return fmt.Errorf("%s:%d: continuation without clause", path, line)
			}
			*lastExpr += " " + strings.TrimSpace(t[1:])
			continue
		}
		lastExpr = nil
		word := t
		rest := ""
		if i := strings.IndexAny(t, " \t["); i >= 0 {
			word = t[:i]
			rest = strings.TrimSpace(t[i:])
		}
		switch word {
		case "func", "extern":
			var toks []string
			if strings.HasPrefix(rest, "\"") {
				// quoted key (may contain spaces)
				if j := strings.Index(rest[1:], "\""); j >= 0 {
					toks = append([]string{rest[1 : 1+j]}, splitTop(rest[j+2:])...)
				}
			} else {
				toks = splitTop(rest)
			}
			if len(toks) == 0 {
				return fmt.Errorf("%s:%d: missing function key", path, line)
			}
			fc := &FuncContract{Key: canonFuncKey(toks[0]), PkgPath: pkgPath, Extern: word == "extern", Loops: map[int]*LoopContract{}, Flags: map[string]bool{}, File: path, Line: line}
			if fc.Extern {
				fc.PkgPath = ""
			}
			for _, tk := range toks[1:] {
				if l, ok := parseList(tk, "params"); ok {
					fc.Params = l
				} else if l, ok := parseList(tk, "results"); ok {
					fc.Results = l
				} else if l, ok := parseList(tk, "props"); ok {
					fc.Props = l
				} else if l, ok := parseList(tk, "flags"); ok {
					for _, fl := range l {
						fc.Flags[fl] = true
					}
				} else {
					return fmt.Errorf("%s:%d: unknown token %q", path, line, tk)
				}
			}
			k := fc.mapKey()
			if _, dup := cs.Funcs[k]; dup {
				return fmt.Errorf("%s:%d: duplicate contract for %s", path, line, k)
			}
			cs.Funcs[k] = fc
			curFn, curTy, curLoop, curHook = fc, nil, nil, nil
		case "type":
			tc := &TypeContract{Name: strings.TrimSpace(rest), PkgPath: pkgPath, Guarded: map[string]string{}}
			cs.Types[pkgPath+"::"+tc.Name] = tc
			curFn, curTy, curLoop, curHook = nil, tc, nil, nil
		case "pure", "spec":
			p, err := parsePure(rest, path, line)
			if err != nil {
				return err
			}
			p.Opaque = word == "spec"
			p.PkgPath = pkgPath
			cs.Pures[p.Name] = p
			lastExpr = &p.Body
			curFn, curTy, curLoop, curHook = nil, nil, nil, nil
		case "ghostvar":
			fs := strings.Fields(rest)
			if len(fs) != 2 {
				return fmt.Errorf("%s:%d: ghostvar NAME TYPE", path, line)
			}
			cs.GhostVars[fs[0]] = fs[1]
			curFn, curTy, curLoop, curHook = nil, nil, nil, nil
		case "axiom", "lemma":
			i := strings.Index(rest, ":")
			if i < 0 {
				return fmt.Errorf("%s:%d: axiom needs NAME: EXPR", path, line)
			}
			a := &Axiom{Name: strings.TrimSpace(rest[:i]), Expr: strings.TrimSpace(rest[i+1:]), PkgPath: pkgPath, File: path, Line: line, Lemma: word == "lemma"}
			cs.Axioms = append(cs.Axioms, a)
			lastExpr = &a.Expr
			curFn, curTy, curLoop, curHook = nil, nil, nil, nil
		case "requires", "ensures":
			if curFn == nil {
				return fmt.Errorf("%s:%d: %s outside func", path, line, word)
			}
			c, err := parseClause(t, path, line)
			if err != nil {
				return err
			}
			if word == "requires" {
				curFn.Requires = append(curFn.Requires, c)
			} else {
				if c.Label == "" {
					c.Label = fmt.Sprintf("e%d", len(curFn.Ensures)+1)
				}
				curFn.Ensures = append(curFn.Ensures, c)
			}
			lastExpr = &c.Expr
			curLoop, curHook = nil, nil
		case "invariant":
			c, err := parseClause(t, path, line)
			if err != nil {
				return err
			}
			if curLoop != nil {
				if c.Label == "" {
					c.Label = fmt.Sprintf("i%d", len(curLoop.Invariants)+1)
				}
				curLoop.Invariants = append(curLoop.Invariants, c)
			} else if curTy != nil {
				curTy.Invariants = append(curTy.Invariants, c)
			} else {
				return fmt.Errorf("%s:%d: invariant outside loop/type", path, line)
			}
			lastExpr = &c.Expr
		case "assigns":
			if curFn == nil {
				return fmt.Errorf("%s:%d: assigns outside func", path, line)
			}
			if curLoop != nil {
				curLoop.HasAssigns = true
				for _, l := range splitCommaTop(rest) {
					if l = strings.TrimSpace(l); l != "" && l != "nothing" {
						curLoop.Assigns = append(curLoop.Assigns, l)
					}
				}
				break
			}
			curFn.HasAssigns = true
			for _, l := range splitCommaTop(rest) {
				if l = strings.TrimSpace(l); l != "" && l != "nothing" {
					curFn.Assigns = append(curFn.Assigns, l)
				}
			}
			curHook = nil
		case "ghost":
			if curFn == nil {
				return fmt.Errorf("%s:%d: ghost outside func", path, line)
			}
			g := &GhostDecl{}
			parts := strings.SplitN(rest, "=", 2)
			fs := strings.Fields(parts[0])
			if len(fs) != 2 {
				return fmt.Errorf("%s:%d: ghost NAME TYPE [= EXPR]", path, line)
			}
			g.Name, g.Type = fs[0], fs[1]
			if len(parts) == 2 {
				g.Init = strings.TrimSpace(parts[1])
			}
			curFn.Ghosts = append(curFn.Ghosts, g)
		case "loop":
			if curFn == nil {
				return fmt.Errorf("%s:%d: loop outside func", path, line)
			}
			n, err := strconv.Atoi(strings.TrimSuffix(strings.TrimSpace(rest), ":"))
			if err != nil {
				return fmt.Errorf("%s:%d: loop N", path, line)
			}
			curLoop = &LoopContract{N: n}
			curFn.Loops[n] = curLoop
			curHook = nil
		case "local":
			if curFn == nil {
				return fmt.Errorf("%s:%d: local outside func", path, line)
			}
			nm, desc, _ := strings.Cut(strings.TrimSpace(rest), " ")
			d, err := parseLocalDesc(desc)
			if err != nil {
				return fmt.Errorf("%s:%d: %v", path, line, err)
			}
			if curFn.Locals == nil {
				curFn.Locals = map[string][]localDesc{}
			}
			curFn.Locals[nm] = append(curFn.Locals[nm], d)
		case "at":
			// anchor of the current loop (if a loop clause is open) or of the current closure
			if curLoop != nil {
				curLoop.At = strings.TrimSpace(rest)
			} else if curFn != nil {
				curFn.At = strings.TrimSpace(rest)
			} else {
				return fmt.Errorf("%s:%d: at outside func", path, line)
			}
		case "call", "go", "defer", "send", "recv", "close", "return", "default":
			if curFn == nil {
				return fmt.Errorf("%s:%d: hook outside func", path, line)
			}
			curHook = &CallHook{Kind: word, Pattern: canonFuncKey(strings.TrimSuffix(strings.TrimSpace(rest), ":"))}
			curFn.Hooks = append(curFn.Hooks, curHook)
			curLoop = nil
		case "assert", "assume":
			if curHook == nil {
				return fmt.Errorf("%s:%d: %s outside hook", path, line, word)
			}
			c, err := parseClause(t, path, line)
			if err != nil {
				return err
			}
			if word == "assert" {
				if c.Label == "" {
					c.Label = fmt.Sprintf("a%d", len(curHook.Asserts)+1)
				}
				curHook.Asserts = append(curHook.Asserts, c)
			} else {
				curHook.Assumes = append(curHook.Assumes, c)
			}
			lastExpr = &c.Expr
		case "havoc":
			if curHook == nil {
				return fmt.Errorf("%s:%d: havoc outside hook", path, line)
			}
			for _, l := range splitCommaTop(rest) {
				if l = strings.TrimSpace(l); l != "" {
					curHook.Havocs = append(curHook.Havocs, l)
				}
			}
		case "do":
			if curHook == nil {
				return fmt.Errorf("%s:%d: do outside hook", path, line)
			}
			parts := strings.SplitN(rest, "=", 2)
			if len(parts) != 2 {
				return fmt.Errorf("%s:%d: do NAME = EXPR", path, line)
			}
			d := &DoStmt{Name: strings.TrimSpace(parts[0]), Expr: strings.TrimSpace(parts[1]), Line: line}
			curHook.Dos = append(curHook.Dos, d)
			lastExpr = &d.Expr
		case "go-opaque":
			if curFn == nil {
				return fmt.Errorf("%s:%d: go-opaque outside func", path, line)
			}
			curFn.GoOpaque = append(curFn.GoOpaque, strings.TrimSpace(rest))
		case "guarded":
			if curTy == nil {
				return fmt.Errorf("%s:%d: guarded outside type", path, line)
			}
			fs := strings.Fields(rest)
			if len(fs) != 3 || fs[1] != "by" {
				return fmt.Errorf("%s:%d: guarded FIELD by MUTEX", path, line)
			}
			curTy.Guarded[fs[0]] = fs[2]
		case "shared":
			if curTy == nil {
				return fmt.Errorf("%s:%d: shared outside type", path, line)
			}
			curTy.Shared = true
		default:
			return fmt.Errorf("%s:%d: unknown directive %q", path, line, word)
		}
	}
	return sc.Err()
}

func (fc *FuncContract) mapKey() string {
	if fc.Extern {
		return fc.Key
	}
	return fc.PkgPath + "::" + fc.Key
}

func splitCommaTop(s string) []string {
	var out []string
	depth := 0
	start := 0
	for i, c := range s {
		switch c {
		case '(', '[':
			depth++
		case ')', ']':
			depth--
		case ',':
			if depth == 0 {
				out = append(out, s[start:i])
				start = i + 1
			}
		}
	}
	out = append(out, s[start:])
	return out
}

var pureRe = regexp.MustCompile(`^(\w+)\(([^)]*)\)\s*(\w+)\s*(=\s*(.*))?$`)

func parsePure(rest, file string, line int) (*PureFn, error) {
	m := pureRe.FindStringSubmatch(rest)
	if m == nil {
		return nil, fmt.Errorf("%s:%d: pure NAME(a T, b T) T [= EXPR]", file, line)
	}
	p := &PureFn{Name: m[1], Ret: m[3], Body: strings.TrimSpace(m[5]), File: file, Line: line}
	if strings.TrimSpace(m[2]) != "" {
		for _, a := range strings.Split(m[2], ",") {
			fs := strings.Fields(a)
			if len(fs) != 2 {
				return nil, fmt.Errorf("%s:%d: bad param %q", file, line, a)
			}
			p.Params = append(p.Params, fs[0])
			p.PTypes = append(p.PTypes, fs[1])
		}
	}
	return p, nil
}
