package main

import (
	"flag"
	"fmt"
	"go/ast"
	"go/token"
	"go/types"
	"os"
	"sort"

	"golang.org/x/tools/go/packages"
)

// cmdMutRename is a self-test aid: it renames one local variable (parameters, results and receivers included) of a
// package consistently, which cannot change behaviour. `--list` enumerates the candidates, `--n K` applies the K-th to
// the files of --repo in place (use a scratch copy).
func cmdMutRename(args []string) int {
	fs := flag.NewFlagSet("mutrename", flag.ExitOnError)
	repo := fs.String("repo", "/repo", "repository root (scratch copy)")
	pkg := fs.String("pkg", "", "package pattern, e.g. ./agent/sessions")
	list := fs.Bool("list", false, "list candidates")
	n := fs.Int("n", -1, "apply candidate n")
	fs.Parse(args)
	cfg := &packages.Config{Mode: packages.NeedName | packages.NeedFiles | packages.NeedCompiledGoFiles | packages.NeedImports |
		packages.NeedTypes | packages.NeedSyntax | packages.NeedTypesInfo, Dir: *repo, Env: goEnv()}
	pkgs, err := packages.Load(cfg, *pkg)
	if err != nil || len(pkgs) != 1 || len(pkgs[0].Errors) > 0 {
		fmt.Fprintln(os.Stderr, "load failed", err)
		return 2
	}
	pk := pkgs[0]
	type cand struct {
		obj  *types.Var
		fn   string
		file *ast.File
	}
	var cands []cand
	for _, f := range pk.Syntax {
		for _, d := range f.Decls {
			fd, ok := d.(*ast.FuncDecl)
			if !ok || fd.Body == nil {
				continue
			}
			seen := map[*types.Var]bool{}
			ast.Inspect(fd, func(m ast.Node) bool {
				id, ok := m.(*ast.Ident)
				if !ok || id.Name == "_" {
					return true
				}
				v, ok := pk.TypesInfo.Defs[id].(*types.Var)
				if !ok || v == nil || v.IsField() || seen[v] {
					return true
				}
				seen[v] = true
				cands = append(cands, cand{v, fd.Name.Name, f})
				return true
			})
		}
	}
	sort.Slice(cands, func(i, j int) bool { return cands[i].obj.Pos() < cands[j].obj.Pos() })
	if *list {
		for i, c := range cands {
			p := pk.Fset.Position(c.obj.Pos())
			fmt.Printf("%d\t%s\t%d\t%s\t%s\n", i, p.Filename, p.Line, c.fn, c.obj.Name())
		}
		return 0
	}
	if *n < 0 || *n >= len(cands) {
		return 2
	}
	c := cands[*n]
	var offs []int
	tf := pk.Fset.File(c.file.Pos())
	ast.Inspect(c.file, func(m ast.Node) bool {
		if id, ok := m.(*ast.Ident); ok && pk.TypesInfo.ObjectOf(id) == types.Object(c.obj) {
			offs = append(offs, tf.Offset(id.Pos()))
		}
		return true
	})
	sort.Sort(sort.Reverse(sort.IntSlice(offs)))
	b, err := os.ReadFile(tf.Name())
	if err != nil {
		return 2
	}
	old := c.obj.Name()
	nn := old + "Renamed"
	for _, o := range offs {
		b = append(b[:o:o], append([]byte(nn), b[o+len(old):]...)...)
	}
	os.WriteFile(tf.Name(), b, 0o644)
	fmt.Printf("renamed %s -> %s in %s (%d occurrences)\n", old, nn, c.fn, len(offs))
	_ = token.NoPos
	return 0
}
