package main

import (
	"fmt"
	"os"
	"go/constant"
	"go/token"
	"go/types"
	"math/big"
	"sort"
	"strings"

	"golang.org/x/tools/go/ssa"
)

type deferred struct {
	call *ssa.CallCommon
	args []Val // evaluated args (including receiver/closure value first for non-static)
	fnV  Val
	pos  token.Pos
	ins  ssa.Instruction
}

// Frame is the per-activation symbolic store.
type Frame struct {
	fn       *ssa.Function
	regs     map[ssa.Value]Val
	cells    map[*ssa.Alloc]Val
	defers   []deferred
	active   map[*ssa.BasicBlock]bool
	parent   *Frame
	retBlock *ssa.BasicBlock
	retIdx   int
	retPrev  *ssa.BasicBlock
	retInstr ssa.Value // the call instruction in the parent (nil for go/defer)
	contract *FuncContract
	loops    *loopInfo
	loopFrames map[*ssa.BasicBlock]*loopFrame
	allocSeq map[*ssa.Alloc]int
	loopPre  map[*ssa.BasicBlock]*State
	scopePos token.Pos // position at which names in the clause being evaluated are resolved (lexical scoping)
	params   []Val
	freeVars []Val
	isGo     bool
	depth    int
	callKey  string // for inlined frames: the event that started them (hooks run their updates at the return)
	callKind string
	callPos  token.Pos
}

func (f *Frame) clone() *Frame {
	if f == nil {
		return nil
	}
	n := *f
	n.regs = make(map[ssa.Value]Val, len(f.regs))
	for k, v := range f.regs {
		n.regs[k] = v
	}
	n.cells = make(map[*ssa.Alloc]Val, len(f.cells))
	for k, v := range f.cells {
		n.cells[k] = v
	}
	n.defers = append([]deferred(nil), f.defers...)
	n.active = make(map[*ssa.BasicBlock]bool, len(f.active))
	for k, v := range f.active {
		n.active[k] = v
	}
	if f.loopPre != nil {
		n.loopPre = make(map[*ssa.BasicBlock]*State, len(f.loopPre))
		for k, v := range f.loopPre {
			n.loopPre[k] = v
		}
	}
	if f.allocSeq != nil {
		n.allocSeq = make(map[*ssa.Alloc]int, len(f.allocSeq))
		for k, v := range f.allocSeq {
			n.allocSeq[k] = v
		}
	}
	if f.loopFrames != nil {
		n.loopFrames = make(map[*ssa.BasicBlock]*loopFrame, len(f.loopFrames))
		for k, v := range f.loopFrames {
			n.loopFrames[k] = v
		}
	}
	n.parent = f.parent.clone()
	return &n
}

// lookupLocal finds a source-level local variable or parameter by name.
func (f *Frame) lookupLocal(st *State, name string) (Val, bool) {
	for i, p := range f.fn.Params {
		if p.Name() == name {
			// in the entry state (old(...), function-level assigns) a parameter is its incoming value
			if st != nil && st.X != nil && st == st.X.entry {
				return f.params[i], true
			}
			// a parameter that is reassigned has a shadowing Alloc; prefer it
			if a := f.findAlloc(name); a != nil {
				if v, ok := f.readAlloc(st, a); ok {
					return v, true
				}
			}
			return f.params[i], true
		}
	}
	for i, fv := range f.fn.FreeVars {
		if fv.Name() == name {
			// free variables are pointers to the captured cell
			return st.load(f.freeVars[i]), true
		}
	}
	if a := f.findAlloc(name); a != nil {
		return f.readAlloc(st, a)
	}
	return Val{}, false
}

// lookupAddr returns the pointer to a captured variable or to a heap-allocated local.
func (f *Frame) lookupAddr(st *State, name string) (Val, bool) {
	for i, fv := range f.fn.FreeVars {
		if fv.Name() == name {
			return f.freeVars[i], true
		}
	}
	if a := f.findAlloc(name); a != nil {
		if p, ok := f.regs[a]; ok {
			return p, true
		}
	}
	return Val{}, false
}

// scopedAlloc resolves name lexically: the variable that a Go expression written at f.scopePos would denote. This keeps
// a clause bound to one variable when the function shadows a name in a nested scope (most-recently-executed would let an
// invariant be checked on the inner variable and assumed for the outer one).
func (f *Frame) scopedAlloc(name string) (*ssa.Alloc, bool) {
	if !f.scopePos.IsValid() {
		return nil, false
	}
	fn := f.fn
	for fn.Parent() != nil {
		fn = fn.Parent()
	}
	if fn.Pkg == nil || fn.Pkg.Pkg == nil {
		return nil, false
	}
	inner := fn.Pkg.Pkg.Scope().Innermost(f.scopePos)
	if inner == nil {
		return nil, false
	}
	_, obj := inner.LookupParent(name, f.scopePos)
	if obj == nil {
		return nil, false
	}
	if _, isVar := obj.(*types.Var); !isVar {
		return nil, false
	}
	for _, b := range f.fn.Blocks {
		for _, ins := range b.Instrs {
			if a, ok := ins.(*ssa.Alloc); ok && a.Comment == name && a.Pos() == obj.Pos() {
				return a, true
			}
		}
	}
	// the object is a parameter, a captured variable or a package-level variable: not an Alloc of this function
	return nil, true
}

func (f *Frame) findAlloc(name string) *ssa.Alloc {
	if a, decided := f.scopedAlloc(name); decided {
		if a != nil {
			return a
		}
		// parameters that are reassigned have an Alloc named like them at the parameter's position; fall through
	}
	var best *ssa.Alloc
	bestSeq := -1
	for _, b := range f.fn.Blocks {
		for _, ins := range b.Instrs {
			if a, ok := ins.(*ssa.Alloc); ok && a.Comment == name {
				// among shadowing declarations prefer the one executed most recently on this path
				if seq, ok := f.allocSeq[a]; ok {
					if seq > bestSeq {
						best, bestSeq = a, seq
					}
					continue
				}
				if best == nil {
					best = a
				}
			}
		}
	}
	return best
}

func (f *Frame) readAlloc(st *State, a *ssa.Alloc) (Val, bool) {
	if v, ok := f.cells[a]; ok {
		return v, true
	}
	if p, ok := f.regs[a]; ok {
		return st.load(p), true
	}
	return Val{}, false
}

// ---------------------------------------------------------------------------

func (x *Exec) constVal(t types.Type, c constant.Value) Val {
	v := Val{Typ: t}
	if c == nil {
		return x.zeroVal(t)
	}
	switch u := t.Underlying().(type) {
	case *types.Basic:
		switch {
		case u.Info()&types.IsBoolean != 0:
			if constant.BoolVal(c) {
				v.C = []*T{True}
			} else {
				v.C = []*T{False}
			}
		case u.Info()&types.IsInteger != 0:
			bi, ok := new(big.Int).SetString(constant.ToInt(c).ExactString(), 10)
			if !ok {
				bi = big.NewInt(0)
			}
			v.C = []*T{BigLit(bi)}
		case u.Info()&types.IsFloat != 0:
			v.C = []*T{ratOfConst(c)}
		case u.Info()&types.IsString != 0:
			v.C = []*T{x.prog.strLit(constant.StringVal(c))}
		default:
			v.C = []*T{IntLit(0)}
		}
		return v
	}
	return x.zeroVal(t)
}

func (x *Exec) valueOf(st *State, fr *Frame, v ssa.Value) Val {
	switch n := v.(type) {
	case *ssa.Const:
		return x.constVal(n.Type(), n.Value)
	case *ssa.Global:
		return Val{Typ: n.Type(), C: []*T{Sym("gaddr_"+sanitize(n.Pkg.Pkg.Name())+"_"+sanitize(n.Name()), SInt)}, Addr: &Addr{Kind: AddrGlobal, Global: n, Elem: deref(n.Type())}}
	case *ssa.Function:
		return Val{Typ: n.Type(), C: []*T{Sym("fn_"+sanitize(n.String()), SInt)}, Clo: &Closure{Fn: n}}
	case *ssa.Parameter:
		for i, p := range fr.fn.Params {
			if p == n {
				return fr.params[i]
			}
		}
	case *ssa.FreeVar:
		for i, p := range fr.fn.FreeVars {
			if p == n {
				return fr.freeVars[i]
			}
		}
	case *ssa.Builtin:
		return Val{Typ: n.Type(), C: []*T{IntLit(0)}}
	}
	if r, ok := fr.regs[v]; ok {
		return r
	}
	panic(fmt.Sprintf("valueOf: no value for %s (%T) in %s", v.Name(), v, fr.fn))
}

// load reads through a pointer value.
func (s *State) load(p Val) Val {
	if p.Addr != nil {
		switch p.Addr.Kind {
		case AddrElem:
			return s.loadElem(p.Addr.Base, p.Addr.Idx, p.Addr.Elem)
		case AddrGlobal:
			return s.loadGlobal(p.Addr.Global)
		case AddrBox:
			return s.loadBox(p.Addr.Base, p.Addr.Elem)
		case AddrField:
			return s.loadFieldOf(p.Addr.Base, p.Addr.Styp, p.Addr.Field)
		}
	}
	et := deref(p.Typ)
	if isStruct(et) {
		return s.loadStruct(p.C[0], et)
	}
	if _, ok := et.Underlying().(*types.Array); ok {
		return Val{Typ: et, C: []*T{p.C[0]}}
	}
	return s.loadBox(p.C[0], et)
}

func (s *State) store(p Val, v Val) {
	if p.Addr != nil {
		switch p.Addr.Kind {
		case AddrElem:
			s.storeElem(p.Addr.Base, p.Addr.Idx, p.Addr.Elem, v)
			return
		case AddrGlobal:
			s.storeGlobal(p.Addr.Global, v)
			return
		case AddrBox:
			s.storeBox(p.Addr.Base, p.Addr.Elem, v)
			return
		case AddrField:
			s.storeFieldOf(p.Addr.Base, p.Addr.Styp, p.Addr.Field, v)
			return
		}
	}
	et := deref(p.Typ)
	if isStruct(et) {
		s.storeStruct(p.C[0], et, v)
		return
	}
	if _, ok := et.Underlying().(*types.Array); ok {
		return
	}
	s.storeBox(p.C[0], et, v)
}

// safe emits an implicit safety obligation.
func (x *Exec) safe(st *State, kind string, goal *T, pos token.Pos, what string) {
	if goal == True {
		x.safeTrivial++
		return
	}
	st.oblige("safe", kind, goal, pos, what, x.safetyProps())
	// after the check, continue under the assumption that it held (the failing case is reported once)
	st.assumeAfter("safe", kind, goal)
}

func (x *Exec) safetyProps() []string {
	if x.contract != nil {
		return x.contract.Props
	}
	return nil
}

// wrapInt applies Go's fixed-width wrap-around to a mathematical integer term.
func wrapInt(t *T, typ types.Type) *T {
	bits, signed, ok := intBits(typ)
	if !ok {
		return t
	}
	if n, isLit := t.IsIntLit(); isLit {
		_ = n
		lo, hi := intRange(bits, signed)
		if Le(lo, t) == True && Le(t, hi) == True {
			return t
		}
	}
	lo, hi := intRange(bits, signed)
	mod := BigLit(new(big.Int).Lsh(big.NewInt(1), uint(bits)))
	return Ite(Gt(t, hi), Sub(t, mod), Ite(Lt(t, lo), Add(t, mod), t))
}

func wrapMod(t *T, typ types.Type) *T {
	bits, signed, ok := intBits(typ)
	if !ok {
		return t
	}
	mod := BigLit(new(big.Int).Lsh(big.NewInt(1), uint(bits)))
	m := App("mod", SInt, t, mod)
	if !signed {
		return m
	}
	_, hi := intRange(bits, signed)
	return Ite(Gt(m, hi), Sub(m, mod), m)
}

func (x *Exec) binop(st *State, op token.Token, a, b Val, rt types.Type, pos token.Pos) Val {
	out := Val{Typ: rt}
	switch op {
	case token.EQL, token.NEQ:
		var eq *T
		if len(a.C) != len(b.C) {
			panic("binop ==: layout mismatch")
		}
		var cs []*T
		for i := range a.C {
			cs = append(cs, Eq(a.C[i], b.C[i]))
		}
		eq = And(cs...)
		if _, isSlice := a.Typ.Underlying().(*types.Slice); isSlice {
			// only comparison with nil is legal
			eq = Eq(a.C[0], b.C[0])
		}
		if op == token.NEQ {
			eq = Not(eq)
		}
		out.C = []*T{eq}
		return out
	}
	at, bt := a.C[0], b.C[0]
	switch at.S {
	case SStr:
		switch op {
		case token.ADD:
			out.C = []*T{st.sconcat(at, bt)}
		case token.LSS:
			out.C = []*T{App("strlt", SBool, at, bt)}
		case token.GTR:
			out.C = []*T{App("strlt", SBool, bt, at)}
		case token.LEQ:
			out.C = []*T{Not(App("strlt", SBool, bt, at))}
		case token.GEQ:
			out.C = []*T{Not(App("strlt", SBool, at, bt))}
		default:
			panic("string binop " + op.String())
		}
		return out
	case SBool:
		switch op {
		case token.AND, token.LAND:
			out.C = []*T{And(at, bt)}
		case token.OR, token.LOR:
			out.C = []*T{Or(at, bt)}
		default:
			panic("bool binop " + op.String())
		}
		return out
	case SReal:
		switch op {
		case token.ADD:
			out.C = []*T{x.flRound(st, App("+", SReal, at, bt))}
		case token.SUB:
			out.C = []*T{x.flRound(st, App("-", SReal, at, bt))}
		case token.MUL:
			out.C = []*T{x.flRound(st, x.realMul(st, at, bt))}
		case token.QUO:
			out.C = []*T{x.flRound(st, App("/", SReal, at, bt))}
		case token.LSS:
			out.C = []*T{Lt(at, bt)}
		case token.LEQ:
			out.C = []*T{Le(at, bt)}
		case token.GTR:
			out.C = []*T{Gt(at, bt)}
		case token.GEQ:
			out.C = []*T{Ge(at, bt)}
		default:
			panic("float binop " + op.String())
		}
		return out
	}
	// integers
	switch op {
	case token.ADD:
		out.C = []*T{wrapInt(Add(at, bt), rt)}
	case token.SUB:
		out.C = []*T{wrapInt(Sub(at, bt), rt)}
	case token.MUL:
		_, ok1 := at.IsIntLit()
		_, ok2 := bt.IsIntLit()
		if !ok1 && !ok2 {
			x.noteAbstraction("nonlinear integer product treated as uninterpreted")
			out.C = []*T{wrapMod(App("imul", SInt, at, bt), rt)}
		} else {
			out.C = []*T{wrapMod(Mul(at, bt), rt)}
		}
	case token.QUO, token.REM:
		x.safe(st, "div", Ne(bt, IntLit(0)), pos, "division by zero")
		if d, ok := bt.IsIntLit(); ok && d > 0 {
			q := Ite(Ge(at, IntLit(0)), App("div", SInt, at, bt), Sub(IntLit(0), App("div", SInt, Sub(IntLit(0), at), bt)))
			if op == token.QUO {
				out.C = []*T{q}
			} else {
				out.C = []*T{Sub(at, Mul(bt, q))}
			}
		} else {
			r := st.X.fresh("divres", SInt)
			x.noteAbstraction("division by a non-constant: result unconstrained")
			out.C = []*T{r}
			st.assumeTypeInv(out)
		}
	case token.LSS:
		out.C = []*T{Lt(at, bt)}
	case token.LEQ:
		out.C = []*T{Le(at, bt)}
	case token.GTR:
		out.C = []*T{Gt(at, bt)}
	case token.GEQ:
		out.C = []*T{Ge(at, bt)}
	case token.SHL:
		// x << n: exact when x is a literal via a table over n in [0,bits); otherwise pow2 uninterpreted
		bits, _, _ := intBits(rt)
		out.C = []*T{wrapMod(x.shl(st, at, bt, bits), rt)}
	case token.SHR:
		r := st.X.fresh("shr", SInt)
		x.noteAbstraction(">> result unconstrained")
		out.C = []*T{r}
		st.assumeTypeInv(out)
	case token.AND, token.OR, token.XOR, token.AND_NOT:
		r := st.X.fresh("bitop", SInt)
		x.noteAbstraction("bitwise op result unconstrained")
		out.C = []*T{r}
		st.assumeTypeInv(out)
	default:
		panic("int binop " + op.String())
	}
	return out
}

// shl builds a << n as an ite table over the shift count (exact mathematical value; caller wraps).
func (x *Exec) shl(st *State, a, n *T, bits int) *T {
	if k, ok := n.IsIntLit(); ok && k >= 0 && k < 200 {
		return Mul(a, BigLit(new(big.Int).Lsh(big.NewInt(1), uint(k))))
	}
	// table: n >= bits → 0 (after wrap every bit is shifted out)
	res := IntLit(0)
	for k := bits - 1; k >= 0; k-- {
		res = Ite(Eq(n, IntLit(int64(k))), Mul(a, BigLit(new(big.Int).Lsh(big.NewInt(1), uint(k)))), res)
	}
	if _, ok := a.IsIntLit(); !ok {
		x.noteAbstraction("shift of a non-constant by a non-constant: nonlinear table")
	}
	return res
}

// ---------------------------------------------------------------------------
// Path execution

type pathAbort struct{ why string }

func (x *Exec) step(st *State, fr *Frame, b *ssa.BasicBlock, idx int, prev *ssa.BasicBlock) {
	for ; idx < len(b.Instrs); idx++ {
		if st.Dead {
			return
		}
		ins := b.Instrs[idx]
		switch n := ins.(type) {
		case *ssa.DebugRef:
		case *ssa.Alloc:
			x.execAlloc(st, fr, n)
		case *ssa.Store:
			addr := x.valueOf(st, fr, n.Addr)
			val := x.valueOf(st, fr, n.Val)
			x.execStore(st, fr, addr, val, n.Pos(), n.Addr)
		case *ssa.UnOp:
			if n.Op == token.ARROW {
				x.execRecv(st, fr, n)
			} else {
				fr.regs[n] = x.execUnOp(st, fr, n)
			}
		case *ssa.BinOp:
			fr.regs[n] = x.binop(st, n.Op, x.valueOf(st, fr, n.X), x.valueOf(st, fr, n.Y), n.Type(), n.Pos())
		case *ssa.FieldAddr:
			fr.regs[n] = x.execFieldAddr(st, fr, n)
		case *ssa.Field:
			sv := x.valueOf(st, fr, n.X)
			stru := sv.Typ.Underlying().(*types.Struct)
			lo, hi := fieldRange(stru, n.Field)
			fr.regs[n] = Val{Typ: stru.Field(n.Field).Type(), C: sv.C[lo:hi]}
		case *ssa.IndexAddr:
			fr.regs[n] = x.execIndexAddr(st, fr, n)
		case *ssa.Index:
			fr.regs[n] = x.execIndex(st, fr, n)
		case *ssa.Slice:
			fr.regs[n] = x.execSlice(st, fr, n)
		case *ssa.Phi:
			for i, p := range b.Preds {
				if p == prev {
					fr.regs[n] = x.valueOf(st, fr, n.Edges[i])
				}
			}
		case *ssa.Extract:
			tv := x.valueOf(st, fr, n.Tuple)
			tp := n.Tuple.Type().(*types.Tuple)
			lo, hi := tupleRange(tp, n.Index)
			out := Val{Typ: tp.At(n.Index).Type(), C: tv.C[lo:hi]}
			fr.regs[n] = out
		case *ssa.MakeInterface:
			fr.regs[n] = x.makeInterface(st, x.valueOf(st, fr, n.X), n.Type())
		case *ssa.ChangeInterface:
			v := x.valueOf(st, fr, n.X)
			fr.regs[n] = Val{Typ: n.Type(), C: v.C}
		case *ssa.ChangeType:
			v := x.valueOf(st, fr, n.X)
			fr.regs[n] = Val{Typ: n.Type(), C: v.C, Addr: v.Addr, Clo: v.Clo}
		case *ssa.Convert:
			fr.regs[n] = x.execConvert(st, fr, n)
		case *ssa.TypeAssert:
			fr.regs[n] = x.execTypeAssert(st, fr, n)
		case *ssa.MakeClosure:
			fn := n.Fn.(*ssa.Function)
			var bs []Val
			for _, bnd := range n.Bindings {
				bs = append(bs, x.valueOf(st, fr, bnd))
			}
			fr.regs[n] = Val{Typ: n.Type(), C: []*T{st.newRef("clo")}, Clo: &Closure{Fn: fn, Bindings: bs}}
		case *ssa.MakeMap:
			r := st.newRef("map")
			mt := n.Type().Underlying().(*types.Map)
			dom, domS, _, _ := mapArrays(mt)
			d := st.heapGet(dom, domS)
			ks := mapKeySort(mt)
			empty := App("(as const "+string(ArrSort(ks, SBool))+")", ArrSort(ks, SBool), False)
			st.heapSet(dom, Store(d, r, empty))
			fr.regs[n] = Val{Typ: n.Type(), C: []*T{r}}
		case *ssa.MakeSlice:
			fr.regs[n] = x.execMakeSlice(st, fr, n)
		case *ssa.MakeChan:
			r := st.newRef("chan")
			cl := st.heapGet("ChClosed", ArrSort(SInt, SBool))
			st.heapSet("ChClosed", Store(cl, r, False))
			cp := st.heapGet("ChCap", ArrSort(SInt, SInt))
			st.heapSet("ChCap", Store(cp, r, x.valueOf(st, fr, n.Size).T()))
			ln := st.heapGet("ChLen", ArrSort(SInt, SInt))
			st.heapSet("ChLen", Store(ln, r, IntLit(0)))
			fr.regs[n] = Val{Typ: n.Type(), C: []*T{r}}
		case *ssa.MapUpdate:
			m := x.valueOf(st, fr, n.Map)
			k := x.valueOf(st, fr, n.Key)
			v := x.valueOf(st, fr, n.Value)
			x.safe(st, "mapnil", Ne(m.T(), IntLit(0)), n.Pos(), "assignment to entry in nil map")
			x.guardCheck(st, fr, n.Map, n.Pos())
			st.mapSet(m.T(), x.mapKey(st, k), n.Map.Type().Underlying().(*types.Map), v)
		case *ssa.Lookup:
			fr.regs[n] = x.execLookup(st, fr, n)
		case *ssa.Range:
			fr.regs[n] = x.execRange(st, fr, n)
		case *ssa.Next:
			x.execNext(st, fr, n, b, idx, prev)
			return
		case *ssa.Send:
			x.execSend(st, fr, x.valueOf(st, fr, n.Chan), x.valueOf(st, fr, n.X), n.Pos(), n.Chan)
		case *ssa.Select:
			x.execSelect(st, fr, n, b, idx, prev)
			return
		case *ssa.Call:
			if x.execCall(st, fr, n, b, idx, prev) {
				return // continuation handled by callee frame
			}
		case *ssa.Go:
			if x.execGo(st, fr, n, b, idx, prev) {
				return
			}
		case *ssa.Defer:
			x.execDefer(st, fr, n)
		case *ssa.RunDefers:
			if len(fr.defers) > 0 {
				d := fr.defers[len(fr.defers)-1]
				fr.defers = fr.defers[:len(fr.defers)-1]
				if x.runDeferred(st, fr, d, b, idx, prev) {
					return
				}
				idx-- // re-run RunDefers until the stack is empty
			}
		case *ssa.Panic:
			x.hookEvent(st, fr, "panic", "", nil, nil, n.Pos())
			x.safe(st, "panic", False, n.Pos(), "explicit panic reachable")
			return
		case *ssa.If:
			c := x.valueOf(st, fr, n.Cond).T()
			tb, fb := b.Succs[0], b.Succs[1]
			if c == True {
				x.jump(st, fr, b, tb)
				return
			}
			if c == False {
				x.jump(st, fr, b, fb)
				return
			}
			// syntactic pruning: a condition already decided on this path has only one feasible branch
			if known, val := st.knows(c); known {
				if os.Getenv("GVC_DEBUG_PRUNE") != "" {
					fmt.Fprintf(os.Stderr, "prune %s: %s known=%v at %s\n", x.fn.Name(), c.String(), val, x.prog.fset.Position(n.Pos()))
				}
				if val {
					x.jump(st, fr, b, tb)
				} else {
					x.jump(st, fr, b, fb)
				}
				return
			}
			st2 := st.Clone()
			fr2 := fr.clone()
			st.Assume(c)
			st.tr("b%d→%d", b.Index, tb.Index)
			x.jump(st, fr, b, tb)
			st2.Assume(Not(c))
			st2.tr("b%d→%d", b.Index, fb.Index)
			x.jump(st2, fr2, b, fb)
			return
		case *ssa.Jump:
			x.jump(st, fr, b, b.Succs[0])
			return
		case *ssa.Return:
			var rv Val
			rv.Typ = fr.fn.Signature.Results()
			for _, r := range n.Results {
				v := x.valueOf(st, fr, r)
				rv.C = append(rv.C, v.C...)
				if len(n.Results) == 1 {
					rv.Addr, rv.Clo = v.Addr, v.Clo
				}
			}
			x.doReturn(st, fr, rv, n.Pos())
			return
		default:
			x.errorf("%s: unsupported instruction %T (%s)", x.prog.fset.Position(ins.Pos()), ins, ins)
			st.Dead = true
			return
		}
	}
}

func (x *Exec) doReturn(st *State, fr *Frame, rv Val, pos token.Pos) {
	if fr.parent == nil {
		x.atReturn(st, fr, rv, pos)
		return
	}
	p := fr.parent
	if fr.isGo || fr.retInstr == nil {
		// resumed statement produces no value
	} else {
		out := rv
		out.Typ = fr.retInstr.Type()
		p.regs[fr.retInstr] = out
	}
	if fr.callKey != "" {
		res := rv
		if tp, ok := rv.Typ.(*types.Tuple); ok && tp.Len() == 1 {
			res.Typ = tp.At(0).Type()
		}
		x.hookAfter(st, p, fr.callKind, fr.callKey, fr.params, res, fr.callPos)
	}
	x.step(st, p, fr.retBlock, fr.retIdx+1, fr.retPrev)
}

func (x *Exec) countPath() bool {
	x.paths++
	if x.paths > x.maxPaths {
		if x.paths == x.maxPaths+1 {
			x.errorf("path cap (%d) exceeded in %s", x.maxPaths, x.fn)
		}
		return false
	}
	return true
}

// jump transfers control to block to, handling loop cut points.
func (x *Exec) jump(st *State, fr *Frame, from, to *ssa.BasicBlock) {
	if st.Dead {
		return
	}
	li := fr.loops
	// leaving loops: deactivate headers whose body does not contain the target
	for h := range fr.active {
		if !li.body[h][to] {
			delete(fr.active, h)
		}
	}
	if li.isHeader[to] {
		n := li.ordinal[to]
		lc := x.loopContractFor(fr, n)
		if fr.active[to] {
			// back edge: invariant must be preserved; path ends
			x.checkLoopFrame(st, fr, to, n)
			x.checkInvariants(st, fr, lc, n, "inv-keep", to)
			x.countPath()
			return
		}
		if fr.loopPre == nil {
			fr.loopPre = map[*ssa.BasicBlock]*State{}
		}
		fr.loopPre[to] = st.Clone()
		x.checkInvariants(st, fr, lc, n, "inv-init", to)
		// cut: havoc what the loop may modify, assume the invariant, continue
		x.havocLoop(st, fr, to)
		x.assumeInvariants(st, fr, lc, n, to)
		fr.active[to] = true
		if lc == nil || len(lc.Invariants) == 0 {
			st.tr("loop%d(no-invariant)", n)
		} else {
			st.tr("loop%d", n)
		}
	}
	if !x.countPathSoft() {
		return
	}
	x.step(st, fr, to, 0, from)
}

func (x *Exec) countPathSoft() bool {
	x.steps++
	if x.steps > 400000 {
		if x.steps == 400001 {
			x.errorf("step cap exceeded in %s", x.fn)
		}
		return false
	}
	return x.paths <= x.maxPaths
}

func (x *Exec) loopContractFor(fr *Frame, n int) *LoopContract {
	if fr.contract != nil {
		if lc, ok := fr.contract.Loops[n]; ok {
			return lc
		}
	}
	return nil
}

func (x *Exec) envFor(st *State, fr *Frame) *Env {
	e := &Env{x: x, st: st, old: x.entry, fr: fr, vars: map[string]Val{}}
	if fr != nil && fr.fn.Pkg != nil {
		e.pkg = fr.fn.Pkg.Pkg
	} else if fr != nil && fr.fn.Parent() != nil && fr.fn.Parent().Pkg != nil {
		e.pkg = fr.fn.Parent().Pkg.Pkg
	}
	if fr != nil {
		p := fr.fn
		for p.Parent() != nil {
			p = p.Parent()
		}
		if p.Pkg != nil {
			e.pkg = p.Pkg.Pkg
		}
	}
	return e
}

// autoRangeInv: for range-over-slice loops the hidden index stays in [-1, len): generated without annotation.
func (x *Exec) autoRangeInv(st *State, fr *Frame, hdr *ssa.BasicBlock) *T {
	var idxAlloc *ssa.Alloc
	var lenV ssa.Value
	for _, ins := range hdr.Instrs {
		switch n := ins.(type) {
		case *ssa.Store:
			if a, ok := n.Addr.(*ssa.Alloc); ok && a.Comment == "rangeindex" {
				idxAlloc = a
			}
		case *ssa.BinOp:
			if n.Op == token.LSS {
				lenV = n.Y
			}
		}
	}
	if idxAlloc == nil || lenV == nil {
		return nil
	}
	iv, ok := fr.cells[idxAlloc]
	if !ok {
		return nil
	}
	lv, ok := fr.regs[lenV]
	if !ok {
		return nil
	}
	return And(Le(IntLit(-1), iv.T()), Or(Lt(iv.T(), lv.T()), Eq(iv.T(), IntLit(-1))))
}

// loopScopePos is a source position inside the loop statement but before anything its body declares: the first
// positioned instruction of the header block, else of the loop's body in block order.
func loopScopePos(fr *Frame, hdr *ssa.BasicBlock) token.Pos {
	for _, ins := range hdr.Instrs {
		if ins.Pos().IsValid() {
			return ins.Pos()
		}
	}
	best := token.NoPos
	for b := range fr.loops.body[hdr] {
		for _, ins := range b.Instrs {
			if p := ins.Pos(); p.IsValid() && (!best.IsValid() || p < best) {
				best = p
			}
		}
	}
	return best
}

func (x *Exec) checkInvariants(st *State, fr *Frame, lc *LoopContract, n int, kind string, hdr *ssa.BasicBlock) {
	if g := x.autoRangeInv(st, fr, hdr); g != nil {
		st.oblige(kind, fmt.Sprintf("L%d:auto-range", n), g, hdr.Instrs[0].Pos(), "range index within bounds (generated)", x.safetyProps())
	}
	if lc == nil {
		return
	}
	fr.scopePos = loopScopePos(fr, hdr)
	env := x.envFor(st, fr)
	env.loopPre = fr.loopPre[hdr]
	x.bindLoopVars(env, st, fr, hdr)
	for _, c := range lc.Invariants {
		g, err := env.EvalBool(c.Expr)
		if err != nil {
			st.unbound(kind, fmt.Sprintf("L%d:%s", n, c.Label), propsOr(c.Props, x.safetyProps()), hdr.Instrs[0].Pos(), c.Expr, err)
			continue
		}
		st2 := st // obligations share the path condition
		st2.oblige(kind, fmt.Sprintf("L%d:%s", n, c.Label), g, hdr.Instrs[0].Pos(), c.Expr, propsOr(c.Props, x.safetyProps()))
	}
}

func propsOr(a, b []string) []string {
	if len(a) > 0 {
		return a
	}
	return b
}

func (x *Exec) assumeInvariants(st *State, fr *Frame, lc *LoopContract, n int, hdr *ssa.BasicBlock) {
	if g := x.autoRangeInv(st, fr, hdr); g != nil {
		st.Assume(g)
	}
	if lc == nil {
		return
	}
	fr.scopePos = loopScopePos(fr, hdr)
	env := x.envFor(st, fr)
	env.loopPre = fr.loopPre[hdr]
	x.bindLoopVars(env, st, fr, hdr)
	for _, c := range lc.Invariants {
		g, err := env.EvalBool(c.Expr)
		if err != nil {
			continue // reported by checkInvariants as an unbound clause
		}
		st.Assume(g)
	}
	if x.loopCover == nil {
		x.loopCover = map[int]bool{}
	}
}

// ---------------------------------------------------------------------------
// Instructions

func (x *Exec) execAlloc(st *State, fr *Frame, n *ssa.Alloc) {
	if fr.allocSeq == nil {
		fr.allocSeq = map[*ssa.Alloc]int{}
	}
	fr.allocSeq[n] = len(fr.allocSeq) + x.steps
	et := deref(n.Type())
	if isStruct(et) {
		r := st.newRef(sanitize(n.Comment))
		st.storeStruct(r, et, x.zeroVal(et))
		fr.regs[n] = Val{Typ: n.Type(), C: []*T{r}}
		return
	}
	if at, ok := et.Underlying().(*types.Array); ok {
		r := st.newRef("arr")
		// zeroed contents
		_ = at
		fr.regs[n] = Val{Typ: n.Type(), C: []*T{r}}
		return
	}
	if n.Heap {
		r := st.newRef(sanitize(n.Comment))
		st.storeBox(r, et, x.zeroVal(et))
		fr.regs[n] = Val{Typ: n.Type(), C: []*T{r}, Addr: &Addr{Kind: AddrBox, Base: r, Elem: et}}
		return
	}
	fr.cells[n] = x.zeroVal(et)
	fr.regs[n] = Val{Typ: n.Type(), C: []*T{IntLit(-1)}, Addr: &Addr{Kind: AddrLocal, Cell: n, Elem: et}}
}

func (x *Exec) execStore(st *State, fr *Frame, addr, val Val, pos token.Pos, addrV ssa.Value) {
	if addr.Addr != nil && addr.Addr.Kind == AddrLocal {
		f := fr
		for f != nil {
			if _, ok := f.cells[addr.Addr.Cell]; ok || f.fn == addr.Addr.Cell.Parent() {
				f.cells[addr.Addr.Cell] = val
				return
			}
			f = f.parent
		}
		fr.cells[addr.Addr.Cell] = val
		return
	}
	if addr.Addr == nil || addr.Addr.Kind == AddrBox {
		x.safe(st, "nil", Ne(addr.C[0], IntLit(0)), pos, "nil pointer dereference (store)")
	}
	// keep exec-level knowledge (closures) out of the heap: lost on store
	st.store(addr, val)
}

func (x *Exec) loadVia(st *State, fr *Frame, p Val, pos token.Pos) Val {
	if p.Addr != nil && p.Addr.Kind == AddrLocal {
		f := fr
		for f != nil {
			if v, ok := f.cells[p.Addr.Cell]; ok {
				return v
			}
			f = f.parent
		}
		return x.zeroVal(p.Addr.Elem)
	}
	if p.Addr == nil || p.Addr.Kind == AddrBox {
		x.safe(st, "nil", Ne(p.C[0], IntLit(0)), pos, "nil pointer dereference (load)")
	}
	return st.load(p)
}

func (x *Exec) execUnOp(st *State, fr *Frame, n *ssa.UnOp) Val {
	v := x.valueOf(st, fr, n.X)
	switch n.Op {
	case token.MUL:
		if g, ok := n.X.(*ssa.Global); ok && x.initMode && strings.HasPrefix(g.Name(), "init$guard") {
			return Val{Typ: n.Type(), C: []*T{False}}
		}
		return x.loadVia(st, fr, v, n.Pos())
	case token.NOT:
		return Val{Typ: n.Type(), C: []*T{Not(v.T())}}
	case token.SUB:
		if v.T().S == SReal {
			return Val{Typ: n.Type(), C: []*T{App("-", SReal, v.T())}}
		}
		return Val{Typ: n.Type(), C: []*T{wrapInt(Sub(IntLit(0), v.T()), n.Type())}}
	case token.XOR:
		r := st.freshVal(n.Type(), "xor")
		x.noteAbstraction("bitwise complement unconstrained")
		return r
	}
	panic("unop " + n.Op.String())
}

func (x *Exec) execFieldAddr(st *State, fr *Frame, n *ssa.FieldAddr) Val {
	p := x.valueOf(st, fr, n.X)
	st0 := deref(n.X.Type())
	stru := st0.Underlying().(*types.Struct)
	ft := stru.Field(n.Field).Type()
	if p.Addr != nil && p.Addr.Kind == AddrElem {
		// field of a struct element: flattened into the element arrays; not supported for stores
		x.noteAbstraction("field address of slice element")
	}
	x.safe(st, "nil", Ne(p.C[0], IntLit(0)), n.Pos(), "nil pointer dereference (field "+stru.Field(n.Field).Name()+")")
	if isStruct(ft) {
		return Val{Typ: n.Type(), C: []*T{st.subRef(p.C[0], st0, n.Field)}}
	}
	// pointer to a scalar field: box-like address backed by the field arrays
	return Val{Typ: n.Type(), C: []*T{App("faddr_"+structKey(st0)+"_"+stru.Field(n.Field).Name(), SInt, p.C[0])},
		Addr: &Addr{Kind: AddrField, Base: p.C[0], Styp: st0, Field: n.Field, Elem: ft}}
}

func (x *Exec) execIndexAddr(st *State, fr *Frame, n *ssa.IndexAddr) Val {
	xv := x.valueOf(st, fr, n.X)
	iv := x.valueOf(st, fr, n.Index).T()
	switch u := n.X.Type().Underlying().(type) {
	case *types.Slice:
		x.safe(st, "index", And(Le(IntLit(0), iv), Lt(iv, xv.C[2])), n.Pos(), "index out of range")
		return Val{Typ: n.Type(), C: []*T{IntLit(-2)}, Addr: &Addr{Kind: AddrElem, Base: xv.C[0], Idx: Add(xv.C[1], iv), Elem: u.Elem()}}
	case *types.Pointer:
		at := u.Elem().Underlying().(*types.Array)
		x.safe(st, "index", And(Le(IntLit(0), iv), Lt(iv, IntLit(at.Len()))), n.Pos(), "index out of range")
		return Val{Typ: n.Type(), C: []*T{IntLit(-2)}, Addr: &Addr{Kind: AddrElem, Base: xv.C[0], Idx: iv, Elem: at.Elem()}}
	}
	panic("IndexAddr on " + n.X.Type().String())
}

func (x *Exec) execIndex(st *State, fr *Frame, n *ssa.Index) Val {
	xv := x.valueOf(st, fr, n.X)
	iv := x.valueOf(st, fr, n.Index).T()
	switch u := n.X.Type().Underlying().(type) {
	case *types.Basic: // string indexing
		x.safe(st, "index", And(Le(IntLit(0), iv), Lt(iv, st.slen(xv.T()))), n.Pos(), "string index out of range")
		r := App("sbyte", SInt, xv.T(), iv)
		st.Assume(And(Le(IntLit(0), r), Le(r, IntLit(255))))
		return Val{Typ: n.Type(), C: []*T{r}}
	case *types.Array:
		_ = u
		return st.freshVal(n.Type(), "arrelem")
	}
	panic("Index on " + n.X.Type().String())
}

func (x *Exec) execSlice(st *State, fr *Frame, n *ssa.Slice) Val {
	xv := x.valueOf(st, fr, n.X)
	var lo, hi *T
	if n.Low != nil {
		lo = x.valueOf(st, fr, n.Low).T()
	} else {
		lo = IntLit(0)
	}
	switch u := n.X.Type().Underlying().(type) {
	case *types.Slice:
		if n.High != nil {
			hi = x.valueOf(st, fr, n.High).T()
		} else {
			hi = xv.C[2]
		}
		capT := xv.C[3]
		if n.Max != nil {
			mx := x.valueOf(st, fr, n.Max).T()
			x.safe(st, "slice", And(Le(hi, mx), Le(mx, xv.C[3])), n.Pos(), "slice bounds out of range (max)")
			capT = mx
		}
		x.safe(st, "slice", And(Le(IntLit(0), lo), Le(lo, hi), Le(hi, xv.C[3])), n.Pos(), "slice bounds out of range")
		_ = u
		return Val{Typ: n.Type(), C: []*T{xv.C[0], Add(xv.C[1], lo), Sub(hi, lo), Sub(capT, lo)}}
	case *types.Basic: // string
		l := st.slen(xv.T())
		if n.High != nil {
			hi = x.valueOf(st, fr, n.High).T()
		} else {
			hi = l
		}
		x.safe(st, "slice", And(Le(IntLit(0), lo), Le(lo, hi), Le(hi, l)), n.Pos(), "string slice bounds out of range")
		r := App("substr", SStr, xv.T(), lo, hi)
		st.Assume(Eq(App("slen", SInt, r), Sub(hi, lo)))
		return Val{Typ: n.Type(), C: []*T{r}}
	case *types.Pointer:
		at := u.Elem().Underlying().(*types.Array)
		if n.High != nil {
			hi = x.valueOf(st, fr, n.High).T()
		} else {
			hi = IntLit(at.Len())
		}
		x.safe(st, "slice", And(Le(IntLit(0), lo), Le(lo, hi), Le(hi, IntLit(at.Len()))), n.Pos(), "slice bounds out of range")
		return Val{Typ: n.Type(), C: []*T{xv.C[0], lo, Sub(hi, lo), Sub(IntLit(at.Len()), lo)}}
	}
	panic("Slice on " + n.X.Type().String())
}

func (x *Exec) execMakeSlice(st *State, fr *Frame, n *ssa.MakeSlice) Val {
	l := x.valueOf(st, fr, n.Len).T()
	c := x.valueOf(st, fr, n.Cap).T()
	x.safe(st, "slice", And(Le(IntLit(0), l), Le(l, c)), n.Pos(), "makeslice: len out of range")
	r := st.newRef("slice")
	et := n.Type().Underlying().(*types.Slice).Elem()
	// zeroed contents
	var zs []*T
	for _, cmp := range Layout(et) {
		zs = append(zs, App("(as const "+string(ArrSort(SInt, cmp.S))+")", ArrSort(SInt, cmp.S), zeroOf(cmp.S, x)))
	}
	st.setElemsOf(r, et, zs)
	return Val{Typ: n.Type(), C: []*T{r, IntLit(0), l, c}}
}

func (x *Exec) typeTag(t types.Type) int { return x.prog.typeTag(t) }

func (x *Exec) makeInterface(st *State, v Val, it types.Type) Val {
	// an interface value is a handle h != 0 with itype(h) = tag and payload functions
	tag := x.typeTag(v.Typ)
	var h *T
	if len(v.C) == 1 && (v.C[0].S == SInt || v.C[0].S == SStr || v.C[0].S == SBool) {
		// functional encoding for scalar payloads (pointers, ints, strings, bools): equal values box to equal handles
		h = App(fmt.Sprintf("mkiface_%d", tag), SInt, v.C[0])
		x.prog.noteTagSort(tag, v.C[0].S)
	} else {
		h = st.X.fresh("iface", SInt)
	}
	st.Assume(Ne(h, IntLit(0)))
	st.Assume(Eq(App("itype", SInt, h), IntLit(int64(tag))))
	for i, c := range Layout(v.Typ) {
		st.Assume(Eq(App(fmt.Sprintf("ipay_%d_%d", tag, i), c.S, h), v.C[i]))
	}
	out := Val{Typ: it, C: []*T{h}}
	if v.Clo != nil {
		out.Clo = v.Clo
	}
	return out
}

func (x *Exec) payload(st *State, h *T, t types.Type) Val {
	tag := x.typeTag(t)
	out := Val{Typ: t}
	for i, c := range Layout(t) {
		out.C = append(out.C, App(fmt.Sprintf("ipay_%d_%d", tag, i), c.S, h))
	}
	st.assumeTypeInv(out)
	if isPointerLike(t) && len(out.C) == 1 {
		st.assumeAllocated(out.C[0])
	}
	return out
}

func (x *Exec) execTypeAssert(st *State, fr *Frame, n *ssa.TypeAssert) Val {
	v := x.valueOf(st, fr, n.X)
	h := v.T()
	var ok *T
	var res Val
	if isInterface(n.AssertedType) {
		// interface-to-interface: succeeds iff non-nil and dynamic type implements it (uninterpreted per target,
		// statically true when the static type already has the asserted method set)
		impl := App("implements_"+typeKey(n.AssertedType), SBool, App("itype", SInt, h))
		if types.AssignableTo(n.X.Type(), n.AssertedType) {
			impl = True
		}
		ok = And(Ne(h, IntLit(0)), impl)
		res = Val{Typ: n.AssertedType, C: []*T{h}}
	} else {
		tag := x.typeTag(n.AssertedType)
		ok = And(Ne(h, IntLit(0)), Eq(App("itype", SInt, h), IntLit(int64(tag))))
		res = x.payload(st, h, n.AssertedType)
	}
	if !n.CommaOk {
		x.safe(st, "typeassert", ok, n.Pos(), "type assertion without comma-ok may fail")
		return res
	}
	// tuple (value, ok): value is zero when !ok
	z := x.zeroVal(n.AssertedType)
	out := Val{Typ: n.Type()}
	for i := range res.C {
		out.C = append(out.C, Ite(ok, res.C[i], z.C[i]))
	}
	out.C = append(out.C, ok)
	return out
}

func (x *Exec) execConvert(st *State, fr *Frame, n *ssa.Convert) Val {
	v := x.valueOf(st, fr, n.X)
	from, to := n.X.Type().Underlying(), n.Type().Underlying()
	fb, fok := from.(*types.Basic)
	tb, tok := to.(*types.Basic)
	switch {
	case fok && tok && fb.Info()&types.IsInteger != 0 && tb.Info()&types.IsInteger != 0:
		return Val{Typ: n.Type(), C: []*T{wrapMod2(v.T(), n.X.Type(), n.Type())}}
	case fok && tok && fb.Info()&types.IsInteger != 0 && tb.Info()&types.IsFloat != 0:
		return Val{Typ: n.Type(), C: []*T{x.flRound(st, App("to_real", SReal, v.T()))}}
	case fok && tok && fb.Info()&types.IsFloat != 0 && tb.Info()&types.IsInteger != 0:
		return x.floatToInt(st, v, n.Type(), n.Pos())
	case fok && tok && fb.Info()&types.IsFloat != 0 && tb.Info()&types.IsFloat != 0:
		return Val{Typ: n.Type(), C: v.C}
	case fok && tok && fb.Info()&types.IsString != 0 && tb.Info()&types.IsString != 0:
		return Val{Typ: n.Type(), C: v.C}
	case fok && fb.Info()&types.IsString != 0:
		// string -> []byte / []rune
		if sl, ok := to.(*types.Slice); ok {
			r := st.newRef("bytes")
			l := st.slen(v.T())
			content := App("sbytes", ArrSort(SInt, SInt), v.T())
			st.setElemsOf(r, sl.Elem(), []*T{content})
			// strOf(sbytes(s), 0, slen(s)) == s
			st.Assume(Eq(App("strOf", SStr, content, IntLit(0), l), v.T()))
			return Val{Typ: n.Type(), C: []*T{r, IntLit(0), l, l}}
		}
	case tok && tb.Info()&types.IsString != 0:
		if _, ok := from.(*types.Slice); ok {
			return Val{Typ: n.Type(), C: []*T{st.strOfBytes(v)}}
		}
		if fok && fb.Info()&types.IsInteger != 0 {
			return Val{Typ: n.Type(), C: []*T{App("runestr", SStr, v.T())}}
		}
	}
	if len(Layout(n.Type())) == len(v.C) {
		x.noteAbstraction("conversion " + n.X.Type().String() + " → " + n.Type().String() + " treated as identity")
		return Val{Typ: n.Type(), C: v.C}
	}
	return st.freshVal(n.Type(), "conv")
}

func wrapMod2(t *T, from, to types.Type) *T {
	fbits, fsigned, _ := intBits(from)
	tbits, tsigned, _ := intBits(to)
	if fsigned == tsigned && tbits >= fbits {
		return t
	}
	if !fsigned && tsigned && tbits > fbits {
		return t
	}
	return wrapMod(t, to)
}

func (x *Exec) mapKey(st *State, k Val) *T {
	if len(k.C) == 1 {
		return k.C[0]
	}
	panic("composite map key")
}

func (x *Exec) execLookup(st *State, fr *Frame, n *ssa.Lookup) Val {
	m := x.valueOf(st, fr, n.X)
	k := x.valueOf(st, fr, n.Index)
	mt, ok := n.X.Type().Underlying().(*types.Map)
	if !ok {
		// string indexing
		return st.freshVal(n.Type(), "strindex")
	}
	x.guardCheck(st, fr, n.X, n.Pos())
	kt := x.mapKey(st, k)
	has := And(Ne(m.T(), IntLit(0)), st.mapHas(m.T(), kt, mt))
	val := st.mapGet(m.T(), kt, mt)
	z := x.zeroVal(mt.Elem())
	out := Val{}
	for i := range val.C {
		out.C = append(out.C, Ite(has, val.C[i], z.C[i]))
	}
	tmp := Val{Typ: mt.Elem(), C: out.C}
	st.assumeTypeInv(tmp)
	if isPointerLike(mt.Elem()) {
		st.assumeAllocated(out.C[0])
	}
	if _, ok := mt.Elem().Underlying().(*types.Slice); ok {
		st.assumeAllocated(out.C[0])
	}
	if n.CommaOk {
		out.Typ = n.Type()
		out.C = append(out.C, has)
		return out
	}
	out.Typ = mt.Elem()
	return out
}

// rangeState tracks map iteration: the set of visited keys (ghost) per Range instruction.
func (x *Exec) execRange(st *State, fr *Frame, n *ssa.Range) Val {
	xv := x.valueOf(st, fr, n.X)
	if mt, ok := n.X.Type().Underlying().(*types.Map); ok {
		ks := mapKeySort(mt)
		visited := App("(as const "+string(ArrSort(ks, SBool))+")", ArrSort(ks, SBool), False)
		st.Ghost[rangeGhost(n)] = Val{C: []*T{visited}}
		// the domain being iterated is that at loop entry (Go: entries added during iteration may be skipped)
		st.Ghost[rangeGhost(n)+"_dom0"] = Val{C: []*T{st.mapDom(xv.T(), mt)}}
		x.guardCheck(st, fr, n.X, n.Pos())
		return Val{Typ: n.Type(), C: []*T{xv.T()}}
	}
	// string range
	st.Ghost[rangeGhost(n)] = Val{C: []*T{IntLit(0)}}
	return Val{Typ: n.Type(), C: []*T{IntLit(0)}}
}

func rangeGhost(n *ssa.Range) string { return fmt.Sprintf("$range_%s", n.Name()) }

func (x *Exec) execNext(st *State, fr *Frame, n *ssa.Next, b *ssa.BasicBlock, idx int, prev *ssa.BasicBlock) {
	rg := n.Iter.(*ssa.Range)
	tp := n.Type().(*types.Tuple)
	if mt, ok := rg.X.Type().Underlying().(*types.Map); ok {
		m := x.valueOf(st, fr, rg.X).T()
		visited := st.Ghost[rangeGhost(rg)].C[0]
		ks := mapKeySort(mt)
		k := st.X.fresh("rk", ks)
		dom := st.mapDom(m, mt)
		// Go semantics: each key present and not yet visited is produced at most once; deleted keys are not produced.
		qk := Sym("k!nx", ks)
		noneLeft := Forall([]*T{qk}, Implies(Select(dom, qk), Select(visited, qk)))
		// Case 1: iteration ends
		st1 := st.Clone()
		fr1 := fr.clone()
		st1.Assume(Or(Eq(m, IntLit(0)), noneLeft))
		out1 := Val{Typ: tp}
		out1.C = append(out1.C, False)
		out1.C = append(out1.C, x.zeroVal(tp.At(1).Type()).C...)
		out1.C = append(out1.C, x.zeroVal(tp.At(2).Type()).C...)
		fr1.regs[n] = out1
		st1.tr("range-end")
		x.step(st1, fr1, b, idx+1, prev)
		// Case 2: some unvisited key present
		st.Assume(Ne(m, IntLit(0)))
		st.Assume(And(Select(dom, k), Not(Select(visited, k))))
		st.Ghost[rangeGhost(rg)] = Val{C: []*T{Store(visited, k, True)}}
		val := st.mapGet(m, k, mt)
		st.assumeTypeInv(val)
		if _, ok := mt.Elem().Underlying().(*types.Slice); ok {
			st.assumeAllocated(val.C[0])
		}
		out := Val{Typ: tp}
		out.C = append(out.C, True)
		out.C = append(out.C, k)
		if len(Layout(tp.At(2).Type())) == len(val.C) {
			out.C = append(out.C, val.C...)
		} else {
			out.C = append(out.C, x.zeroVal(tp.At(2).Type()).C...)
		}
		fr.regs[n] = out
		st.tr("range-next")
		x.step(st, fr, b, idx+1, prev)
		return
	}
	// string iteration: abstract (index advances, rune unconstrained)
	s := x.valueOf(st, fr, rg.X).T()
	pos := st.Ghost[rangeGhost(rg)].C[0]
	l := st.slen(s)
	st1 := st.Clone()
	fr1 := fr.clone()
	st1.Assume(Ge(pos, l))
	out1 := Val{Typ: tp, C: []*T{False, IntLit(0), IntLit(0)}}
	fr1.regs[n] = out1
	x.step(st1, fr1, b, idx+1, prev)
	st.Assume(Lt(pos, l))
	w := st.X.fresh("rw", SInt)
	st.Assume(And(Le(IntLit(1), w), Le(w, IntLit(4)), Le(Add(pos, w), l)))
	r := st.X.fresh("rune", SInt)
	st.Assume(And(Le(IntLit(0), r), Le(r, IntLit(0x10ffff))))
	st.Ghost[rangeGhost(rg)] = Val{C: []*T{Add(pos, w)}}
	fr.regs[n] = Val{Typ: tp, C: []*T{True, pos, r}}
	x.step(st, fr, b, idx+1, prev)
}

// ---------------------------------------------------------------------------
// Loop analysis

type loopInfo struct {
	isHeader map[*ssa.BasicBlock]bool
	ordinal  map[*ssa.BasicBlock]int
	body     map[*ssa.BasicBlock]map[*ssa.BasicBlock]bool
	headers  []*ssa.BasicBlock
}

func analyzeLoops(fn *ssa.Function) *loopInfo {
	li := &loopInfo{isHeader: map[*ssa.BasicBlock]bool{}, ordinal: map[*ssa.BasicBlock]int{}, body: map[*ssa.BasicBlock]map[*ssa.BasicBlock]bool{}}
	if len(fn.Blocks) == 0 {
		return li
	}
	// back edge: edge b→h where h dominates b
	for _, b := range fn.Blocks {
		for _, s := range b.Succs {
			if s.Dominates(b) {
				if !li.isHeader[s] {
					li.isHeader[s] = true
					li.headers = append(li.headers, s)
					li.body[s] = map[*ssa.BasicBlock]bool{s: true}
				}
				// natural loop of back edge b→s
				stack := []*ssa.BasicBlock{b}
				for len(stack) > 0 {
					n := stack[len(stack)-1]
					stack = stack[:len(stack)-1]
					if li.body[s][n] {
						continue
					}
					li.body[s][n] = true
					stack = append(stack, n.Preds...)
				}
			}
		}
	}
	// ordinal by source position of the header (fall back to block index)
	sort.Slice(li.headers, func(i, j int) bool {
		pi, pj := headerPos(li.headers[i]), headerPos(li.headers[j])
		if pi != pj {
			return pi < pj
		}
		return li.headers[i].Index < li.headers[j].Index
	})
	for i, h := range li.headers {
		li.ordinal[h] = i + 1
	}
	return li
}

func headerPos(b *ssa.BasicBlock) token.Pos {
	// the loop keyword position is not recorded; use the smallest position of any instruction in the header
	var best token.Pos
	for _, ins := range b.Instrs {
		if p := ins.Pos(); p != token.NoPos && (best == token.NoPos || p < best) {
			best = p
		}
	}
	if best == token.NoPos {
		for _, s := range b.Succs {
			for _, ins := range s.Instrs {
				if p := ins.Pos(); p != token.NoPos && (best == token.NoPos || p < best) {
					best = p
				}
			}
		}
	}
	return best
}

func blockComment(b *ssa.BasicBlock) string { return b.Comment }

// loopFrame remembers the heap at a loop head when the loop declares its own assigns clause.
type loopFrame struct {
	head    map[string]*T
	alloc   *T
	locs    []Loc
	names   []string
	sorts   map[string]Sort
}

// havocLoop forgets everything the loop body may modify.
func (x *Exec) havocLoop(st *State, fr *Frame, hdr *ssa.BasicBlock) {
	ms := x.prog.modSetOfBlocks(fr.fn, fr.loops.body[hdr], x)
	lc := x.loopContractFor(fr, fr.loops.ordinal[hdr])
	// locations forgotten by hook `havoc` directives that can fire inside the loop
	if x.contract != nil {
		fired := x.hooksFiringIn(fr, hdr)
		for _, h := range x.contract.Hooks {
			if len(h.Havocs) == 0 || !fired["$hook:"+h.Kind+":"+h.Pattern] {
				continue
			}
			env := x.envFor(st, x.topFrame(fr))
			for _, ls := range h.Havocs {
				if l, err := x.resolveLoc(env, ls); err == nil {
					if l.All {
						ms.all = true
					}
					for i, n := range l.Arrays {
						ms.heap[n] = true
						ms.sorts[n] = l.Sorts[i]
					}
				} else {
					ms.all = true
				}
			}
		}
	}
	if os.Getenv("GVC_DEBUG") != "" {
		fmt.Fprintf(os.Stderr, "havocLoop %s L%d all=%v heap=%v\n", fr.fn.Name(), fr.loops.ordinal[hdr], ms.all, ms.heap)
	}
	if ms.all {
		st.havocAllHeap("loop body calls code without a frame")
	} else {
		names := make([]string, 0, len(ms.heap))
		for n := range ms.heap {
			names = append(names, n)
		}
		sort.Strings(names)
		var lf *loopFrame
		var assigns []string
		useFrame := false
		var env *Env
		if lc != nil && lc.HasAssigns {
			assigns, useFrame = lc.Assigns, true
			env = x.envFor(st, fr)
		} else if fr.parent == nil && fr.contract != nil && fr.contract.HasAssigns && !containsStr(fr.contract.Assigns, "heap") {
			// a loop without its own frame inherits the function's assigns clause (locations of the entry state)
			assigns, useFrame = fr.contract.Assigns, true
			env = x.envFor(x.entry, fr)
			env.st = x.entry
		}
		if useFrame {
			lf = &loopFrame{head: map[string]*T{}, names: names, sorts: ms.sorts}
			for _, ls := range assigns {
				l, err := x.resolveLoc(env, ls)
				if err != nil {
					x.errorf("loop assigns: %v", err)
					continue
				}
				lf.locs = append(lf.locs, l)
			}
		}
		allocPre := st.heapGet("Alloc", ArrSort(SInt, SBool))
		if ms.allocs {
			old := st.heapGet("Alloc", ArrSort(SInt, SBool))
			nw := st.X.fresh("Alloc", ArrSort(SInt, SBool))
			r := Sym("r!a", SInt)
			st.Assume(Forall([]*T{r}, Implies(Select(old, r), Select(nw, r))))
			st.Heap["Alloc"] = nw
		}
		if lf != nil {
			// precise havoc: rows of objects that existed before the loop and are outside the declared locations keep
			// their pre-loop contents; everything else (declared locations, objects allocated by earlier iterations) is unknown
			for _, n := range names {
				if n == "Alloc" || n == "Held" {
					continue
				}
				pre := st.heapGet(n, ms.sorts[n])
				// channel state (length, closedness) cannot be named in an assigns clause and is not part of the frame
				// check, so it must not be part of the frame assumption either: what the loop needs about its channels
				// has to be in the invariant
				whole := strings.HasPrefix(n, "Ch")
				var refs []*T
				for _, l := range lf.locs {
					for _, a := range l.Arrays {
						if a == n {
							if l.Ref == nil {
								whole = true
							} else {
								refs = append(refs, l.Ref)
							}
						}
					}
				}
				if !pre.S.IsArray() || strings.HasPrefix(n, "G_") {
					if whole {
						st.havocHeap(n)
					}
					continue
				}
				nw := st.X.fresh(n, pre.S)
				st.X.wfArray(n, nw)
				if !whole {
					r := Sym("r!lh", SInt)
					conds := []*T{Select(allocPre, r)}
					for _, rf := range refs {
						conds = append(conds, Ne(r, rf))
					}
					st.Assume(Forall([]*T{r}, Implies(And(conds...), Eq(Select(nw, r), Select(pre, r)))))
				}
				st.Heap[n] = nw
				st.AsOf[n] = st.Heap["Alloc"]
			}
			for _, n := range names {
				lf.head[n] = st.Heap[n]
			}
			lf.alloc = st.heapGet("Alloc", ArrSort(SInt, SBool))
			if fr.loopFrames == nil {
				fr.loopFrames = map[*ssa.BasicBlock]*loopFrame{}
			}
			fr.loopFrames[hdr] = lf
		} else {
			for _, n := range names {
				if n == "Alloc" {
					continue
				}
				st.HeapS[n] = ms.sorts[n]
				st.Heap[n] = st.X.fresh(n, ms.sorts[n])
				st.X.wfArray(n, st.Heap[n])
				delete(st.AsOf, n)
				st.AsOf[n] = st.Heap["Alloc"]
			}
		}
	}
	// local cells assigned in the loop (in this frame and, for closures, captured boxes are heap)
	for a := range ms.cells {
		f := fr
		for f != nil {
			if old, ok := f.cells[a]; ok {
				nv := st.freshVal(old.Typ, sanitize(a.Comment))
				x.assumeParamAllocated(st, old.Typ, nv)
				f.cells[a] = nv
				break
			}
			f = f.parent
		}
	}
	// ghost variables assigned by hooks that can fire inside the loop body
	if top := x.topFrame(fr); top.contract != nil {
		fired := x.hooksFiringIn(fr, hdr)
		for _, g := range top.contract.Ghosts {
			if v, ok := st.Ghost[g.Name]; ok && fired[g.Name] {
				nv := Val{Typ: v.Typ}
				for _, c := range v.C {
					nv.C = append(nv.C, st.X.fresh("ghost_"+g.Name, c.S))
				}
				st.Ghost[g.Name] = nv
				st.assumeTypeInv(nv)
			}
		}
	}
	// map-range ghost state of ranges started outside but advanced inside the loop
	for _, b := range fr.fn.Blocks {
		if !fr.loops.body[hdr][b] {
			continue
		}
		for _, ins := range b.Instrs {
			if nx, ok := ins.(*ssa.Next); ok {
				rg := nx.Iter.(*ssa.Range)
				if v, ok := st.Ghost[rangeGhost(rg)]; ok {
					st.Ghost[rangeGhost(rg)] = Val{C: []*T{st.X.fresh("visited", v.C[0].S)}}
				}
			}
		}
	}
}

// checkLoopFrame: at a back edge, everything outside the loop's declared assigns is as it was at the loop head.
func (x *Exec) checkLoopFrame(st *State, fr *Frame, hdr *ssa.BasicBlock, n int) {
	lf := fr.loopFrames[hdr]
	if lf == nil {
		return
	}
	for _, name := range lf.names {
		if name == "Held" {
			// the loop head assumes the lock state of the loop entry, so every iteration must restore it
			if cur, ok := st.Heap["Held"]; ok {
				if head := lf.head["Held"]; head != nil && cur.String() != head.String() {
					st.oblige("guard", fmt.Sprintf("L%d:lock-balance", n), Eq(cur, head), hdr.Instrs[0].Pos(), "locks held at the back edge == locks held at the loop head", x.safetyProps())
				}
			}
			continue
		}
		if name == "Alloc" || strings.HasPrefix(name, "Ch") {
			continue
		}
		cur, ok := st.Heap[name]
		if !ok {
			continue
		}
		head := lf.head[name]
		if head == nil || cur.String() == head.String() {
			continue
		}
		var goal *T
		if !cur.S.IsArray() || strings.HasPrefix(name, "G_") {
			whole := false
			for _, l := range lf.locs {
				for _, a := range l.Arrays {
					if a == name && l.Ref == nil {
						whole = true
					}
				}
			}
			if whole {
				continue
			}
			goal = Eq(cur, head)
		} else {
			r := Sym("r!lf", SInt)
			conds := []*T{Select(lf.alloc, r)}
			skip := false
			for _, l := range lf.locs {
				for _, a := range l.Arrays {
					if a != name {
						continue
					}
					if l.Ref == nil {
						skip = true
					} else {
						conds = append(conds, Ne(r, l.Ref))
					}
				}
			}
			if skip {
				continue
			}
			goal = Forall([]*T{r}, Implies(And(conds...), Eq(Select(cur, r), Select(head, r))))
		}
		st.oblige("loopframe", fmt.Sprintf("L%d:%s", n, name), goal, hdr.Instrs[0].Pos(), "loop changes only its declared locations in "+name, x.safetyProps())
	}
}

// hooksFiringIn returns the ghost names assigned by hooks whose events can occur in the loop body.
func (x *Exec) hooksFiringIn(fr *Frame, hdr *ssa.BasicBlock) map[string]bool {
	out := map[string]bool{}
	fc := x.contract
	if fc == nil {
		return out
	}
	mark := func(kind, key string, any bool) {
		for _, h := range fc.Hooks {
			if any || x.matchHook(h, kind, key) {
				out["$hook:"+h.Kind+":"+h.Pattern] = true
				for _, d := range h.Dos {
					n := d.Name
					if i := strings.Index(n, "["); i > 0 {
						n = n[:i]
					}
					out[n] = true
				}
			}
		}
	}
	for _, b := range fr.fn.Blocks {
		if !fr.loops.body[hdr][b] {
			continue
		}
		for _, ins := range b.Instrs {
			switch n := ins.(type) {
			case ssa.CallInstruction:
				c := n.Common()
				kind := "call"
				if _, ok := ins.(*ssa.Go); ok {
					kind = "go"
				}
				if bi, ok := c.Value.(*ssa.Builtin); ok {
					if bi.Name() == "close" {
						mark("close", "", false)
					}
					continue
				}
				if c.IsInvoke() {
					mark(kind, shortenKey(c.Method.FullName()), false)
				} else if f := c.StaticCallee(); f != nil {
					mark(kind, shortenKey(f.String()), false)
					if x.prog.isRepoFn(f) && len(f.Blocks) > 0 {
						if cf := x.prog.contractFor(f); cf == nil || cf.Flags["inline"] {
							mark("", "", true) // inlined code may fire any hook
						}
					}
				} else {
					mark("", "", true)
				}
			case *ssa.Send:
				mark("send", x.chanName(n.Chan), false)
			case *ssa.Select:
				for _, s2 := range n.States {
					if s2.Dir == types.SendOnly {
						mark("send", x.chanName(s2.Chan), false)
					} else {
						mark("recv", x.chanName(s2.Chan), false)
					}
				}
			case *ssa.UnOp:
				if n.Op == token.ARROW {
					mark("recv", x.chanName(n.X), false)
				}
			}
		}
	}
	return out
}

func containsStr(l []string, s string) bool {
	for _, x := range l {
		if strings.TrimSpace(x) == s {
			return true
		}
	}
	return false
}

func (x *Exec) ghostAssignedInHooks(fc *FuncContract, name string) bool {
	for _, h := range fc.Hooks {
		for _, d := range h.Dos {
			if d.Name == name || strings.HasPrefix(d.Name, name+"[") {
				return true
			}
		}
	}
	return false
}

// bindLoopVars exposes range-loop ghost state to invariants: $visited (map ranges).
func (x *Exec) bindLoopVars(env *Env, st *State, fr *Frame, hdr *ssa.BasicBlock) {
	// range-over-slice loops keep a hidden index of the last completed iteration (-1 before the first):
	// idx (this loop) and idxN (loop N) expose it to invariants
	for _, h := range fr.loops.headers {
		for _, ins := range h.Instrs {
			if s, ok := ins.(*ssa.Store); ok {
				if a, ok := s.Addr.(*ssa.Alloc); ok && a.Comment == "rangeindex" {
					if v, ok := fr.cells[a]; ok {
						env.vars[fmt.Sprintf("idx%d", fr.loops.ordinal[h])] = v
						if h == hdr {
							env.vars["idx"] = v
						}
					}
				}
			}
		}
	}
	// map-range state of this loop or, for loops nested inside a map range, of the enclosing one
	for _, h := range fr.loops.headers {
		if !fr.loops.body[h][hdr] {
			continue
		}
		for _, ins := range h.Instrs {
			if nx, ok := ins.(*ssa.Next); ok {
				rg := nx.Iter.(*ssa.Range)
				if v, ok := st.Ghost[rangeGhost(rg)]; ok {
					if _, isMap := rg.X.Type().Underlying().(*types.Map); !isMap {
						continue
					}
					if _, have := env.vars["visited"]; !have || h == hdr {
						env.vars["visited"] = v
						if d, ok := st.Ghost[rangeGhost(rg)+"_dom0"]; ok {
							env.vars["dom0"] = d
						}
					}
				}
			}
		}
	}
}
