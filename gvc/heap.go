package main

import (
	"fmt"
	"go/types"
	"math/big"

	"golang.org/x/tools/go/ssa"
)

func intRange(bits int, signed bool) (*T, *T) {
	one := big.NewInt(1)
	if signed {
		hi := new(big.Int).Lsh(one, uint(bits-1))
		lo := new(big.Int).Neg(hi)
		hi.Sub(hi, one)
		return BigLit(lo), BigLit(hi)
	}
	hi := new(big.Int).Lsh(one, uint(bits))
	hi.Sub(hi, one)
	return IntLit(0), BigLit(hi)
}

func structKey(t types.Type) string {
	return typeKey(t)
}

func compSuffix(c Comp) string {
	if c.Name == "" {
		return ""
	}
	return "_" + sanitize(c.Name)
}

// fieldArrays returns heap array names (one per component) for field i of struct type st
// (st is the named or literal struct type, not a pointer). Nested struct fields have no arrays of their own.
func fieldArrays(st types.Type, i int) ([]string, []Sort) {
	s := st.Underlying().(*types.Struct)
	f := s.Field(i)
	var names []string
	var sorts []Sort
	for _, c := range Layout(f.Type()) {
		names = append(names, "F_"+structKey(st)+"_"+f.Name()+compSuffix(c))
		sorts = append(sorts, ArrSort(SInt, c.S))
	}
	return names, sorts
}

func subRefName(st types.Type, i int) string {
	s := st.Underlying().(*types.Struct)
	return "sub_" + structKey(st) + "_" + s.Field(i).Name()
}

// subRef returns the reference of the nested struct stored in field i of object ref.
func (s *State) subRef(ref *T, st types.Type, i int) *T {
	n := subRefName(st, i)
	s.X.prog.useSubRef(n)
	return App(n, SInt, ref)
}

// loadFieldOf loads field i of the struct object at ref.
func (s *State) loadFieldOf(ref *T, st types.Type, i int) Val {
	stru := st.Underlying().(*types.Struct)
	ft := stru.Field(i).Type()
	if isStruct(ft) {
		return s.loadStruct(s.subRef(ref, st, i), ft)
	}
	names, sorts := fieldArrays(st, i)
	v := Val{Typ: ft}
	for k, n := range names {
		arr := s.heapGet(n, sorts[k])
		t := Select(arr, ref)
		v.C = append(v.C, t)
	}
	s.afterLoadAt(v, names, ref)
	return v
}

func (s *State) storeFieldOf(ref *T, st types.Type, i int, v Val) {
	stru := st.Underlying().(*types.Struct)
	ft := stru.Field(i).Type()
	if isStruct(ft) {
		s.storeStruct(s.subRef(ref, st, i), ft, v)
		return
	}
	names, sorts := fieldArrays(st, i)
	if len(names) != len(v.C) {
		panic(fmt.Sprintf("storeFieldOf: %d arrays vs %d comps for %v.%s", len(names), len(v.C), st, stru.Field(i).Name()))
	}
	for k, n := range names {
		arr := s.heapGet(n, sorts[k])
		s.heapSet(n, Store(arr, ref, v.C[k]))
	}
}

func (s *State) loadStruct(ref *T, st types.Type) Val {
	stru := st.Underlying().(*types.Struct)
	v := Val{Typ: st}
	for i := 0; i < stru.NumFields(); i++ {
		f := s.loadFieldOf(ref, st, i)
		v.C = append(v.C, f.C...)
	}
	return v
}

func (s *State) storeStruct(ref *T, st types.Type, v Val) {
	stru := st.Underlying().(*types.Struct)
	off := 0
	for i := 0; i < stru.NumFields(); i++ {
		n := len(Layout(stru.Field(i).Type()))
		s.storeFieldOf(ref, st, i, Val{Typ: stru.Field(i).Type(), C: v.C[off : off+n]})
		off += n
	}
}

// afterLoad adds the standing assumptions for a value read from the heap.
func (s *State) afterLoad(v Val, arrays []string) { s.afterLoadAt(v, arrays, nil) }

func (s *State) afterLoadAt(v Val, arrays []string, obj *T) {
	s.assumeTypeInv(v)
	if isPointerLike(v.Typ) && len(v.C) == 1 {
		s.assumeLoadedPtr(v.C[0], arrays, obj)
	}
	if _, ok := v.Typ.Underlying().(*types.Slice); ok && len(v.C) == 4 {
		s.assumeAllocated(v.C[0])
	}
}

// assumeLoadedPtr: a pointer read from a heap array is nil, was allocated when the array's base version was
// introduced, or is one of the values stored since.
func (s *State) assumeLoadedPtr(p *T, arrays []string, obj *T) {
	if len(arrays) != 1 {
		s.assumeAllocated(p)
		return
	}
	arr, ok := s.Heap[arrays[0]]
	if !ok {
		s.assumeAllocated(p)
		return
	}
	var alts []*T
	alts = append(alts, Eq(p, IntLit(0)))
	for arr.Op == "store" && len(alts) < 8 {
		alts = append(alts, Eq(p, arr.Args[2]))
		arr = arr.Args[0]
	}
	if arr.Op == "store" {
		s.assumeAllocated(p)
		return
	}
	asof, ok := s.AsOf[arrays[0]]
	if !ok {
		asof = Sym("Alloc!0", ArrSort(SInt, SBool))
		if _, isEntry := s.Heap[arrays[0]]; isEntry && arr.Op != arrays[0]+"!0" {
			asof = s.heapGet("Alloc", ArrSort(SInt, SBool))
		}
	}
	if obj == nil {
		s.assumeAllocated(p)
		return
	}
	// the closure property holds for objects that existed when the array version was introduced; a younger object
	// (returned by library code) holds pointers that are allocated now
	alts = append(alts, And(Select(asof, obj), Select(asof, p)))
	alts = append(alts, And(Not(Select(asof, obj)), Select(s.heapGet("Alloc", ArrSort(SInt, SBool)), p)))
	s.Assume(Or(alts...))
}

// Element arrays for slices / arrays with element type et.
func elemArrays(et types.Type) ([]string, []Sort) {
	var names []string
	var sorts []Sort
	for _, c := range Layout(et) {
		names = append(names, "E_"+typeKey(et)+compSuffix(c))
		sorts = append(sorts, ArrSort(SInt, ArrSort(SInt, c.S)))
	}
	return names, sorts
}

// loadElem reads element at absolute index idx of backing array base.
func (s *State) loadElem(base, idx *T, et types.Type) Val {
	names, sorts := elemArrays(et)
	v := Val{Typ: et}
	for k, n := range names {
		arr := s.heapGet(n, sorts[k])
		v.C = append(v.C, Select(Select(arr, base), idx))
	}
	s.assumeTypeInv(v)
	if isPointerLike(et) && len(v.C) == 1 {
		s.assumeAllocated(v.C[0])
	}
	if _, ok := et.Underlying().(*types.Slice); ok && len(v.C) == 4 {
		s.assumeAllocated(v.C[0])
	}
	return v
}

func (s *State) storeElem(base, idx *T, et types.Type, v Val) {
	names, sorts := elemArrays(et)
	for k, n := range names {
		arr := s.heapGet(n, sorts[k])
		inner := Select(arr, base)
		s.heapSet(n, Store(arr, base, Store(inner, idx, v.C[k])))
	}
}

// elemsOf returns the content arrays (one per component) of a backing array.
func (s *State) elemsOf(base *T, et types.Type) []*T {
	names, sorts := elemArrays(et)
	var out []*T
	for k, n := range names {
		out = append(out, Select(s.heapGet(n, sorts[k]), base))
	}
	return out
}

func (s *State) setElemsOf(base *T, et types.Type, contents []*T) {
	names, sorts := elemArrays(et)
	for k, n := range names {
		arr := s.heapGet(n, sorts[k])
		s.heapSet(n, Store(arr, base, contents[k]))
	}
}

func boxArrays(t types.Type) ([]string, []Sort) {
	var names []string
	var sorts []Sort
	for _, c := range Layout(t) {
		names = append(names, "B_"+typeKey(t)+compSuffix(c))
		sorts = append(sorts, ArrSort(SInt, c.S))
	}
	return names, sorts
}

func (s *State) loadBox(ref *T, t types.Type) Val {
	names, sorts := boxArrays(t)
	v := Val{Typ: t}
	for k, n := range names {
		v.C = append(v.C, Select(s.heapGet(n, sorts[k]), ref))
	}
	s.afterLoad(v, names)
	return v
}

func (s *State) storeBox(ref *T, t types.Type, v Val) {
	names, sorts := boxArrays(t)
	for k, n := range names {
		arr := s.heapGet(n, sorts[k])
		s.heapSet(n, Store(arr, ref, v.C[k]))
	}
}

func globalNames(g *ssa.Global) ([]string, []Sort) {
	t := deref(g.Type())
	var names []string
	var sorts []Sort
	for _, c := range Layout(t) {
		names = append(names, "G_"+sanitize(g.Pkg.Pkg.Name())+"_"+sanitize(g.Name())+compSuffix(c))
		sorts = append(sorts, c.S)
	}
	return names, sorts
}

func (s *State) loadGlobal(g *ssa.Global) Val {
	t := deref(g.Type())
	names, sorts := globalNames(g)
	v := Val{Typ: t}
	for k, n := range names {
		v.C = append(v.C, s.heapGet(n, sorts[k]))
	}
	s.assumeTypeInv(v)
	if isPointerLike(t) && len(v.C) == 1 {
		s.assumeAllocated(v.C[0])
	}
	return v
}

func (s *State) storeGlobal(g *ssa.Global, v Val) {
	names, _ := globalNames(g)
	for k, n := range names {
		s.heapSet(n, v.C[k])
	}
}

// Map arrays.
func mapKeySort(mt *types.Map) Sort {
	l := Layout(mt.Key())
	if len(l) == 1 {
		return l[0].S
	}
	return SInt
}

func mapArrays(mt *types.Map) (dom string, domS Sort, vals []string, valS []Sort) {
	ks := mapKeySort(mt)
	key := typeKey(mt)
	dom = "MD_" + key
	domS = ArrSort(SInt, ArrSort(ks, SBool))
	for _, c := range Layout(mt.Elem()) {
		vals = append(vals, "MV_"+key+compSuffix(c))
		valS = append(valS, ArrSort(SInt, ArrSort(ks, c.S)))
	}
	return
}

func (s *State) mapDom(m *T, mt *types.Map) *T {
	dom, domS, _, _ := mapArrays(mt)
	return Select(s.heapGet(dom, domS), m)
}

func (s *State) mapHas(m, k *T, mt *types.Map) *T {
	return Select(s.mapDom(m, mt), k)
}

func (s *State) mapGet(m, k *T, mt *types.Map) Val {
	_, _, vals, valS := mapArrays(mt)
	v := Val{Typ: mt.Elem()}
	for i, n := range vals {
		v.C = append(v.C, Select(Select(s.heapGet(n, valS[i]), m), k))
	}
	return v
}

func (s *State) mapSet(m, k *T, mt *types.Map, v Val) {
	dom, domS, vals, valS := mapArrays(mt)
	d := s.heapGet(dom, domS)
	s.heapSet(dom, Store(d, m, Store(Select(d, m), k, True)))
	for i, n := range vals {
		a := s.heapGet(n, valS[i])
		s.heapSet(n, Store(a, m, Store(Select(a, m), k, v.C[i])))
	}
}

func (s *State) mapDelete(m, k *T, mt *types.Map) {
	dom, domS, _, _ := mapArrays(mt)
	d := s.heapGet(dom, domS)
	s.heapSet(dom, Store(d, m, Store(Select(d, m), k, False)))
}

// zeroVal returns the zero value of a type.
func (x *Exec) zeroVal(t types.Type) Val {
	v := Val{Typ: t}
	for _, c := range Layout(t) {
		v.C = append(v.C, zeroOf(c.S, x))
	}
	return v
}

func zeroOf(s Sort, x *Exec) *T {
	switch s {
	case SInt:
		return IntLit(0)
	case SBool:
		return False
	case SReal:
		return RealLit(new(big.Rat))
	case SStr:
		return x.prog.strLit("")
	}
	panic("zeroOf " + string(s))
}

// freshVal returns an unconstrained value of a type (with type invariants assumed).
func (s *State) freshVal(t types.Type, hint string) Val {
	v := Val{Typ: t}
	for _, c := range Layout(t) {
		v.C = append(v.C, s.X.fresh(hint+compSuffix(c), c.S))
	}
	s.assumeTypeInv(v)
	return v
}
