package main

import (
	"encoding/json"
	"flag"
	"fmt"
	"os"
	"path/filepath"
	"regexp"
	"sort"
	"strconv"
	"strings"
	"time"
)

var verifDir = "/verif"

func main() {
	if len(os.Args) < 2 {
		usage()
	}
	if exe, err := os.Executable(); err == nil {
		if d := filepath.Dir(filepath.Dir(exe)); fileExists(filepath.Join(d, "properties.jsonl")) {
			verifDir = d
		}
	}
	switch os.Args[1] {
	case "check":
		os.Exit(cmdCheck(os.Args[2:]))
	case "dump":
		os.Exit(cmdDump(os.Args[2:]))
	case "replay":
		os.Exit(cmdReplay(os.Args[2:]))
	case "anchors":
		os.Exit(cmdAnchors(os.Args[2:]))
	case "mutrename":
		os.Exit(cmdMutRename(os.Args[2:]))
	case "selftest":
		os.Exit(cmdSelftest(os.Args[2:]))
	default:
		usage()
	}
}

func usage() {
	fmt.Fprintln(os.Stderr, "usage: gvc check <Cxx> [--tier quick|thorough] [--repo DIR] | gvc dump <pkg> <func> | gvc replay <file> | gvc selftest [ids]")
	os.Exit(2)
}

func fileExists(p string) bool { _, err := os.Stat(p); return err == nil }

type checkOpts struct {
	id      string
	tier    string
	repo    string
	verbose bool
	only    string
	noWrite bool
	keep    bool
}

func parseCheckArgs(args []string) checkOpts {
	fs := flag.NewFlagSet("check", flag.ExitOnError)
	o := checkOpts{}
	fs.StringVar(&o.tier, "tier", "quick", "quick|thorough")
	fs.StringVar(&o.repo, "repo", "/repo", "repository root")
	fs.BoolVar(&o.verbose, "v", false, "verbose")
	fs.StringVar(&o.only, "only", "", "only functions whose name contains this")
	fs.BoolVar(&o.noWrite, "no-evidence", false, "do not write evidence/replay files (self-test)")
	fs.BoolVar(&debugPanics, "panic", false, "do not recover engine panics")
	var rest []string
	for len(args) > 0 && !strings.HasPrefix(args[0], "-") {
		rest = append(rest, args[0])
		args = args[1:]
	}
	fs.Parse(args)
	rest = append(rest, fs.Args()...)
	if len(rest) < 1 {
		usage()
	}
	o.id = rest[0]
	if t := os.Getenv("VERIF_TIER"); t == "quick" || t == "thorough" {
		o.tier = t
	}
	return o
}

// packagesFor finds the repository packages whose contract files mention the property id.
func packagesFor(repo, id string) ([]string, error) {
	var pats []string
	mentioned := false
	err := filepath.Walk(repo, func(path string, info os.FileInfo, err error) error {
		if err != nil {
			return nil
		}
		if info.IsDir() && (info.Name() == ".git" || info.Name() == "vendor" || info.Name() == "node_modules") {
			return filepath.SkipDir
		}
		if info.Name() == "verif_contracts.go" {
			b, _ := os.ReadFile(path)
			rel, _ := filepath.Rel(repo, filepath.Dir(path))
			pats = append(pats, "./"+rel)
			if regexp.MustCompile(`\b` + id + `\b`).Match(b) {
				mentioned = true
			}
		}
		return nil
	})
	sort.Strings(pats)
	if !mentioned {
		return nil, err
	}
	return pats, err
}

type knownFinding struct {
	Kind       string // finding | fixed
	Property   string
	Obligation string
	Text       string
}

func loadKnownFindings() []knownFinding {
	b, err := os.ReadFile(filepath.Join(verifDir, "KNOWN_FINDINGS.txt"))
	if err != nil {
		return nil
	}
	var out []knownFinding
	for _, l := range strings.Split(string(b), "\n") {
		l = strings.TrimSpace(l)
		if l == "" || strings.HasPrefix(l, "#") {
			continue
		}
		var kf knownFinding
		switch {
		case strings.HasPrefix(l, "finding:"):
			kf.Kind = "finding"
			l = strings.TrimSpace(l[8:])
		case strings.HasPrefix(l, "fixed:"):
			kf.Kind = "fixed"
			l = strings.TrimSpace(l[6:])
		default:
			continue
		}
		for _, f := range strings.Fields(l) {
			if strings.HasPrefix(f, "property=") {
				kf.Property = f[9:]
			} else if strings.HasPrefix(f, "obligation=") {
				kf.Obligation = f[11:]
			}
		}
		if i := strings.Index(l, "  "); i > 0 {
			kf.Text = strings.TrimSpace(l[i:])
		}
		out = append(out, kf)
	}
	return out
}

func hasProp(props []string, id string) bool {
	for _, p := range props {
		if p == id {
			return true
		}
	}
	return false
}

func contractServes(fc *FuncContract, id string) bool {
	if hasProp(fc.Props, id) {
		return true
	}
	for _, c := range fc.Ensures {
		if hasProp(c.Props, id) {
			return true
		}
	}
	for _, l := range fc.Loops {
		for _, c := range l.Invariants {
			if hasProp(c.Props, id) {
				return true
			}
		}
	}
	for _, h := range fc.Hooks {
		for _, c := range h.Asserts {
			if hasProp(c.Props, id) {
				return true
			}
		}
	}
	return false
}

func cmdCheck(args []string) int {
	o := parseCheckArgs(args)
	t0 := time.Now()
	seed := 0
	if s := os.Getenv("VERIF_SEED"); s != "" {
		seed, _ = strconv.Atoi(s)
	}
	fail := func(format string, a ...interface{}) int {
		fmt.Printf("TOOL-ERROR: "+format+"\n", a...)
		return 2
	}
	pats, err := packagesFor(o.repo, o.id)
	if err != nil || len(pats) == 0 {
		return fail("no contract file under %s mentions %s", o.repo, o.id)
	}
	prog, err := LoadProgram(o.repo, pats)
	if err != nil {
		return fail("load: %v", err)
	}
	if err := prog.LoadSpecs(filepath.Join(verifDir, "specs")); err != nil {
		return fail("specs: %v", err)
	}
	loadS := time.Since(t0).Seconds()
	// functions under contract serving this property
	var keys []string
	for k, fc := range prog.contracts.Funcs {
		if fc.Extern || !contractServes(fc, o.id) {
			continue
		}
		keys = append(keys, k)
	}
	sort.Strings(keys)
	var results []*FuncResult
	var toolErrs []string
	// contracts (of any property) whose function is gone: the code was restructured and the contracts have not followed
	var orphans, orphansServing []string
	for _, fc := range prog.contracts.Funcs {
		if !fc.Extern && prog.findFunc(fc.PkgPath, fc.Key) == nil {
			orphans = append(orphans, fc.Key)
		}
	}
	sort.Strings(orphans)
	cfg0 := SolverCfg{TimeoutS: 10, WorkDir: filepath.Join(os.TempDir(), fmt.Sprintf("gvc-foreign-%d", os.Getpid())), Seed: seed, Parallel: 12}
	defer os.RemoveAll(cfg0.WorkDir)
	var unmasked []string
	// A function serving this property is verified against the contracts of its callees. The postconditions it
	// assumes there are part of this property's proof whatever property they are labelled with: the callees are
	// verified in this run too (transitively) and those postconditions count as obligations of this property.
	reliedPosts := map[string]map[string]bool{}
	queued := map[string]bool{}
	for _, k := range keys {
		queued[k] = true
	}
	for qi := 0; qi < len(keys); qi++ {
		k := keys[qi]
		fc := prog.contracts.Funcs[k]
		fn := prog.findFunc(fc.PkgPath, fc.Key)
		if fn == nil {
			orphansServing = append(orphansServing, fmt.Sprintf("%s:%d: contract for unknown function %s in %s", fc.File, fc.Line, fc.Key, fc.PkgPath))
			continue
		}
		if o.only != "" && !strings.Contains(fc.Key, o.only) {
			continue
		}
		// Obligations are assumed once emitted. If one that belongs to another property fails, everything after it
		// would hold vacuously; such obligations are found first and the function is re-run without assuming them.
		var noAssume map[string]bool
		// a listed known finding fails by definition: assuming it would make everything downstream of it vacuous
		for _, kf := range loadKnownFindings() {
			if kf.Kind == "finding" && kf.Property == o.id {
				base := kf.Obligation
				if i := strings.LastIndex(base, "#"); i > 0 {
					base = base[:i]
				}
				if noAssume == nil {
					noAssume = map[string]bool{}
				}
				noAssume[base] = true
			}
		}
		var r *FuncResult
		for round := 0; round < 4; round++ {
			r = prog.verifyFunction(fn, fc, noAssume)
			var foreign []*Obligation
			for _, ob := range r.Obls {
				if (ob.Kind == "mon" || ob.Kind == "pre") && !hasProp(ob.Props, o.id) {
					foreign = append(foreign, ob)
				}
			}
			if len(foreign) == 0 {
				break
			}
			prog.solveAll(foreign, cfg0)
			changed := false
			for _, ob := range foreign {
				if ob.Verdict == "unsat" {
					continue
				}
				base := ob.Name
				if i := strings.LastIndex(base, "#"); i > 0 {
					base = base[:i]
				}
				if noAssume == nil {
					noAssume = map[string]bool{}
				}
				if !noAssume[base] {
					noAssume[base] = true
					changed = true
					unmasked = append(unmasked, fmt.Sprintf("%s [%s] is not discharged (%s); it is checked under its own property and not assumed here", base, strings.Join(ob.Props, ","), ob.Verdict))
				}
			}
			if !changed {
				break
			}
		}
		results = append(results, r)
		for _, e := range r.Errors {
			toolErrs = append(toolErrs, r.Name+": "+e)
		}
		var rk []string
		for ck := range r.Relied {
			rk = append(rk, ck)
		}
		sort.Strings(rk)
		for _, ck := range rk {
			if reliedPosts[ck] == nil {
				reliedPosts[ck] = map[string]bool{}
			}
			for l := range r.Relied[ck] {
				reliedPosts[ck][l] = true
			}
			if cfc, ok := prog.contracts.Funcs[ck]; ok && !cfc.Extern && !queued[ck] && o.only == "" {
				queued[ck] = true
				keys = append(keys, ck)
			}
		}
	}
	for _, u := range unmasked {
		fmt.Println("NOTE: obligation of another property", u)
	}
	// select the obligations of this property
	var obs []*Obligation
	var vac []*Obligation
	for _, r := range results {
		for _, ob := range r.Obls {
			if hasProp(ob.Props, o.id) {
				obs = append(obs, ob)
			} else if ob.Kind == "post" && r.Contract != nil && reliedPosts[r.Contract.mapKey()][ob.Label] {
				ob.Props = append(append([]string{}, ob.Props...), o.id)
				obs = append(obs, ob)
			}
		}
		vac = append(vac, r.Vacuity...)
	}
	cfg := SolverCfg{TimeoutS: 10, WorkDir: filepath.Join(verifDir, "work", o.id), Seed: seed, Parallel: 12}
	if o.tier == "thorough" {
		cfg.TimeoutS = 60
		cfg.CrossCheck = true
		cfg.Parallel = 5
	}
	if o.noWrite {
		cfg.WorkDir = filepath.Join(os.TempDir(), fmt.Sprintf("gvc-work-%d", os.Getpid()), o.id)
		defer os.RemoveAll(filepath.Dir(cfg.WorkDir))
	}
	os.RemoveAll(cfg.WorkDir)
	if !o.noWrite {
		os.RemoveAll(filepath.Join(verifDir, "replays", o.id))
	}
	// cover guards: every hook assertion / postcondition / preserved invariant must be reached on at least one
	// satisfiable path, otherwise a contradiction among the assumptions would discharge it vacuously
	coverOf := map[string][]*Obligation{}
	var coverNames []string
	for _, ob0 := range obs {
		ob := *ob0
		// group by label: a postcondition needs one reachable return, not every return (dead error branches are fine)
		if i := strings.LastIndex(ob.Name, "#"); i > 0 {
			ob.Name = ob.Name[:i]
		}
		if o.tier == "thorough" {
			if ob.Kind != "mon" && ob.Kind != "post" && ob.Kind != "inv-keep" && ob.Kind != "pre" {
				continue
			}
			if len(coverOf[ob.Name]) >= 3 {
				continue
			}
		} else {
			if ob.Kind != "mon" && ob.Kind != "post" {
				continue
			}
			if len(coverOf[ob.Name]) >= 2 {
				continue
			}
		}
		if _, ok := coverOf[ob.Name]; !ok {
			coverNames = append(coverNames, ob.Name)
		}
		c := &Obligation{Name: "cover:" + ob.Name, Kind: "vacuity", Func: ob.Func, Pos: ob.Pos, Assume: ob.Assume, Goal: True, Vacuity: true}
		coverOf[ob.Name] = append(coverOf[ob.Name], c)
		vac = append(vac, c)
	}
	all := append(append([]*Obligation{}, obs...), vac...)
	prog.solveAll(all, cfg)
	for _, n := range coverNames {
		allUnsat := true
		for _, c := range coverOf[n] {
			if c.Verdict != "unsat" {
				allUnsat = false
			}
		}
		if allUnsat {
			for _, c := range coverOf[n] {
				c.Verdict = "unsat-reported"
			}
			// On the unchanged tree every monitored event is reachable (checked on every run). When a change makes the code
			// that an obligation speaks about unreachable under the contracts, the obligation holds only vacuously: it is
			// reported as not established, under its own name.
			first := coverOf[n][0]
			var props []string
			for _, ob0 := range obs {
				if strings.HasPrefix(ob0.Name, n+"#") {
					props = ob0.Props
					break
				}
			}
			obs = append(obs, &Obligation{Name: n + "#unreachable", Kind: "cover", Func: first.Func, Props: props, Pos: first.Pos, Goal: False,
				GoalText: "some satisfiable path reaches " + n, Verdict: "unreachable", Solver: "z3-new",
				SolverNotes: "no satisfiable path reaches this obligation under the contracts: the code it monitors is dead or the assumptions contradict each other"})
		}
	}
	// vacuity guards
	vacFail := 0
	for _, v := range vac {
		if v.Verdict == "unsat" && !strings.HasPrefix(v.Name, "cover:") {
			vacFail++
			toolErrs = append(toolErrs, "vacuity guard failed (assumptions contradictory): "+v.Name)
		}
	}
	rep := buildReport(prog, o, results, obs, vac, seed, loadS, time.Since(t0).Seconds(), cfg)
	if o.tier == "thorough" && !o.noWrite && os.Getenv("VERIF_NO_CORPUS") == "" {
		rep.corpus = runCorpus(o)
		fmt.Printf("corpus: %d property-breaking or harmless changes applied to a scratch copy, %d as expected, %d unexpected, %d skipped\n", rep.corpus.Ran, rep.corpus.AsExpected, len(rep.corpus.Unexpected), len(rep.corpus.Skipped))
		for _, u := range rep.corpus.Unexpected {
			fmt.Println("  corpus-unexpected:", u)
		}
	}
	rep.orphans, rep.orphansServing = orphans, orphansServing
	rc := rep.emit(o, toolErrs)
	if len(obs) == 0 {
		fmt.Printf("TOOL-ERROR: no obligations generated for %s\n", o.id)
		return 2
	}
	return rc
}

func cmdDump(args []string) int {
	if len(args) < 2 {
		usage()
	}
	repo := "/repo"
	prog, err := LoadProgram(repo, []string{args[0]})
	if err != nil {
		fmt.Println(err)
		return 2
	}
	for path := range prog.ssaPkgs {
		fn := prog.findFunc(path, args[1])
		if fn != nil {
			fn.WriteTo(os.Stdout)
			li := prog.loopsOf(fn)
			for _, h := range li.headers {
				fmt.Printf("loop %d: header block %d (%s)\n", li.ordinal[h], h.Index, h.Comment)
			}
			return 0
		}
	}
	fmt.Println("not found; functions:")
	for path := range prog.ssaPkgs {
		for _, f := range prog.allFuncs(path) {
			fmt.Println("  ", prog.localKey(f))
		}
	}
	return 1
}

var _ = json.Marshal
