package main

import (
	"os"
	"fmt"
	"go/ast"
	"go/parser"
	"go/printer"
	"go/token"
	"go/types"
	"regexp"
	"sort"
	"strings"

	"golang.org/x/tools/go/ssa"
)

var pathElemRe = regexp.MustCompile(`[A-Za-z0-9_.\-~]+/`)

// shortenKey strips directory parts of import paths: (*net/http.Client).Do → (*http.Client).Do
// canonFuncKey drops the parameter and result names from the key of a call through a function value of an unnamed
// function type ("funcvalue:func(err error)" and "funcvalue:func(e error)" are the same callee for every purpose).
func canonFuncKey(k string) string {
	const pre = "funcvalue:"
	if !strings.HasPrefix(k, pre+"func(") {
		return k
	}
	ex, err := parser.ParseExpr(k[len(pre):])
	if err != nil {
		return k
	}
	ast.Inspect(ex, func(n ast.Node) bool {
		if ft, ok := n.(*ast.FuncType); ok {
			for _, fl := range []*ast.FieldList{ft.Params, ft.Results} {
				if fl == nil {
					continue
				}
				var out []*ast.Field
				for _, f := range fl.List {
					cnt := len(f.Names)
					if cnt == 0 {
						cnt = 1
					}
					for i := 0; i < cnt; i++ {
						out = append(out, &ast.Field{Type: f.Type})
					}
				}
				fl.List = out
			}
		}
		return true
	})
	var sb strings.Builder
	if err := printer.Fprint(&sb, token.NewFileSet(), ex); err != nil {
		return k
	}
	return pre + sb.String()
}

func shortenKey(s string) string {
	return pathElemRe.ReplaceAllString(s, "")
}

// calleeInfo describes a resolved call target.
type calleeInfo struct {
	key      string        // shortened display key, e.g. (*http.Client).Do or (io.Reader).Read
	fn       *ssa.Function // static callee or closure body (may be nil for invoke/unknown)
	sig      *types.Signature
	args     []Val // receiver first
	bindings []Val // closure free variables
	invoke   bool
	builtin  string
	common   *ssa.CallCommon
}

func (x *Exec) resolveCall(st *State, fr *Frame, c *ssa.CallCommon) calleeInfo {
	var ci calleeInfo
	ci.common = c
	ci.sig = c.Signature()
	if c.IsInvoke() {
		ci.invoke = true
		ci.key = shortenKey(c.Method.FullName())
		ci.args = append(ci.args, x.valueOf(st, fr, c.Value))
		for _, a := range c.Args {
			ci.args = append(ci.args, x.valueOf(st, fr, a))
		}
		return ci
	}
	for _, a := range c.Args {
		ci.args = append(ci.args, x.valueOf(st, fr, a))
	}
	if b, ok := c.Value.(*ssa.Builtin); ok {
		ci.builtin = b.Name()
		ci.key = "builtin." + b.Name()
		return ci
	}
	if fn := c.StaticCallee(); fn != nil {
		ci.fn = fn
		ci.key = shortenKey(fn.String())
		if mc, ok := c.Value.(*ssa.MakeClosure); ok {
			for _, b := range mc.Bindings {
				ci.bindings = append(ci.bindings, x.valueOf(st, fr, b))
			}
		}
		return ci
	}
	fv := x.valueOf(st, fr, c.Value)
	if fv.Clo != nil {
		ci.fn = fv.Clo.Fn
		ci.bindings = fv.Clo.Bindings
		ci.key = shortenKey(fv.Clo.Fn.String())
		return ci
	}
	ci.key = canonFuncKey("funcvalue:" + shortenKey(types.TypeString(c.Value.Type(), nil)))
	return ci
}

// execCall executes a call instruction. It returns true when control continues elsewhere (inlined callee).
func (x *Exec) execCall(st *State, fr *Frame, n *ssa.Call, b *ssa.BasicBlock, idx int, prev *ssa.BasicBlock) bool {
	ci := x.resolveCall(st, fr, n.Common())
	if ci.builtin != "" {
		fr.regs[n] = x.execBuiltin(st, fr, ci, n)
		return false
	}
	x.guardArgs(st, fr, n.Common(), n.Pos())
	return x.dispatchCall(st, fr, ci, n, n.Pos(), "call", b, idx, prev)
}

// dispatchCall runs hooks and performs the call by contract, spec, native model, inlining or havoc.
func (x *Exec) dispatchCall(st *State, fr *Frame, ci calleeInfo, res ssa.Value, pos token.Pos, kind string, b *ssa.BasicBlock, idx int, prev *ssa.BasicBlock) bool {
	if x.initMode && ci.fn != nil && ci.fn.Name() == "init" && ci.fn.Synthetic != "" {
		return false // initialisers of imported packages
	}
	x.hookEvent(st, fr, kind, ci.key, ci.args, nil, pos)
	if st.Dead {
		return true
	}
	setRes := func(v Val) {
		if res != nil {
			v.Typ = res.Type()
			fr.regs[res] = v
		}
		x.hookAfter(st, fr, kind, ci.key, ci.args, v, pos)
	}
	// 1. repository contract
	if ci.fn != nil {
		if fc := x.prog.contractFor(ci.fn); fc != nil && !fc.Flags["inline"] {
			fc.Used = true
			v, dead := x.callByContract(st, fr, fc, ci, pos, kind)
			if dead {
				st.Dead = true
				return true
			}
			setRes(v)
			return false
		}
	}
	// 2. native models
	if v, ok := x.nativeCall(st, fr, ci, pos); ok {
		if st.Dead {
			return true
		}
		setRes(v)
		return false
	}
	// 3. extern spec
	if fc, ok := x.prog.contracts.Funcs[ci.key]; ok && fc.Extern {
		fc.Used = true
		x.prog.noteSpecUse(ci.key)
		v, dead := x.callByContract(st, fr, fc, ci, pos, kind)
		if dead {
			st.Dead = true
			return true
		}
		setRes(v)
		return false
	}
	// 4. inline repository code
	if ci.fn != nil && len(ci.fn.Blocks) > 0 && x.prog.isRepoFn(ci.fn) && !(kind == "go" && x.goOpaque(ci.key)) {
		if fr.depth < 6 && !x.onStack(fr, ci.fn) {
			nf := &Frame{fn: ci.fn, regs: map[ssa.Value]Val{}, cells: map[*ssa.Alloc]Val{}, active: map[*ssa.BasicBlock]bool{},
				parent: fr, retBlock: b, retIdx: idx, retPrev: prev, retInstr: res, loops: x.prog.loopsOf(ci.fn),
				params: ci.args, freeVars: ci.bindings, depth: fr.depth + 1, isGo: kind == "go", callKey: ci.key, callKind: kind, callPos: pos}
			if fc := x.prog.contractFor(ci.fn); fc != nil {
				nf.contract = fc // inline-flagged contract: loop invariants only
			}
			if len(ci.args) != len(ci.fn.Params) {
				x.errorf("arity mismatch inlining %s", ci.key)
				st.Dead = true
				return true
			}
			st.tr("inline:%s", ci.key)
			x.step(st, nf, ci.fn.Blocks[0], 0, nil)
			return true
		}
	}
	if kind == "go" && x.goOpaque(ci.key) {
		x.noteAbstraction("go-opaque: effects of spawned " + ci.key + " not modelled")
		setRes(Val{})
		return false
	}
	if x.initMode {
		// library constructors called from package initialisers: results fresh (pointers freshly allocated), no effect on this package's tables
		var rv Val
		if ci.sig != nil {
			rv = st.freshVal(ci.sig.Results(), "initret")
			off := 0
			for i := 0; i < ci.sig.Results().Len(); i++ {
				t := ci.sig.Results().At(i).Type()
				n := len(Layout(t))
				if _, isPtr := t.Underlying().(*types.Pointer); isPtr && n == 1 {
					rv.C[off] = st.newRef("initobj")
				}
				off += n
			}
		}
		setRes(rv)
		return false
	}
	// 5. unknown: results fresh, heap forgotten
	x.prog.noteUnknownCall(ci.key)
	st.havocAllHeap("call to " + ci.key + " without a spec")
	var rv Val
	if ci.sig != nil {
		rv = st.freshVal(ci.sig.Results(), "ret")
		x.assumeResultAllocated(st, ci.sig.Results(), rv)
	}
	setRes(rv)
	return false
}

func (x *Exec) assumeResultAllocated(st *State, tp *types.Tuple, rv Val) {
	off := 0
	for i := 0; i < tp.Len(); i++ {
		t := tp.At(i).Type()
		n := len(Layout(t))
		if isPointerLike(t) && n == 1 {
			st.assumeAllocated(rv.C[off])
		}
		if _, ok := t.Underlying().(*types.Slice); ok {
			st.assumeAllocated(rv.C[off])
		}
		off += n
	}
}

func (x *Exec) goOpaque(key string) bool {
	if x.contract == nil {
		return false
	}
	for _, p := range x.contract.GoOpaque {
		if x.matchKey(p, key) {
			return true
		}
	}
	return false
}

func (x *Exec) onStack(fr *Frame, fn *ssa.Function) bool {
	for f := fr; f != nil; f = f.parent {
		if f.fn == fn {
			return true
		}
	}
	return false
}

// matchKey matches a hook pattern against a callee key. Repository functions may be named without package qualifier.
func (x *Exec) matchKey(pat, key string) bool {
	if pat == key || pat == "*" {
		return true
	}
	// drop "pkg." qualifier of the function's own package
	pk := x.pkgName()
	if pk != "" {
		k2 := strings.Replace(key, pk+".", "", 1)
		if pat == k2 {
			return true
		}
	}
	if strings.HasSuffix(pat, "*") && strings.HasPrefix(key, strings.TrimSuffix(pat, "*")) {
		return true
	}
	return false
}

func (x *Exec) pkgName() string {
	f := x.fn
	for f.Parent() != nil {
		f = f.Parent()
	}
	if f.Pkg != nil {
		return pkgQual(f.Pkg.Pkg)
	}
	return ""
}

// hookEvent evaluates the asserts of matching hooks before an event.
func (x *Exec) hookEvent(st *State, fr *Frame, kind, key string, args []Val, ret *Val, pos token.Pos) {
	if x.contract == nil {
		return
	}
	for _, h := range x.contract.Hooks {
		if !x.matchHook(h, kind, key) {
			continue
		}
		tf := x.topFrame(fr)
		tf.scopePos = x.topPos(fr, pos)
		env := x.envFor(st, tf)
		x.bindActiveLoopVars(env, st, tf)
		for i, a := range args {
			env.vars[fmt.Sprintf("arg%d", i)] = a
		}
		for _, c := range h.Asserts {
			g, err := env.EvalBool(c.Expr)
			if err != nil {
				st.unbound("mon", c.Label, propsOr(c.Props, x.safetyProps()), pos, c.Expr, err)
				continue
			}
			st.oblige("mon", c.Label, g, pos, c.Expr, propsOr(c.Props, x.safetyProps()))
			st.assumeAfter("mon", c.Label, g)
		}
	}
}

// topPos maps the position of an event to the function under contract: an event inside an inlined callee is attributed
// to the call site in the top frame, where the clause's names are resolved.
func (x *Exec) topPos(fr *Frame, pos token.Pos) token.Pos {
	if fr.parent == nil {
		return pos
	}
	f := fr
	for f.parent != nil && f.parent.parent != nil {
		f = f.parent
	}
	return f.callPos
}

func (x *Exec) topFrame(fr *Frame) *Frame {
	for fr.parent != nil {
		fr = fr.parent
	}
	return fr
}

// hookAfter runs the ghost updates of matching hooks after an event.
func (x *Exec) hookAfter(st *State, fr *Frame, kind, key string, args []Val, ret Val, pos token.Pos) {
	if x.contract == nil {
		return
	}
	for _, h := range x.contract.Hooks {
		if !x.matchHook(h, kind, key) {
			continue
		}
		tf := x.topFrame(fr)
		tf.scopePos = x.topPos(fr, pos)
		env := x.envFor(st, tf)
		x.bindActiveLoopVars(env, st, tf)
		for i, a := range args {
			env.vars[fmt.Sprintf("arg%d", i)] = a
		}
		x.bindResults(env, ret)
		for _, ls := range h.Havocs {
			l, err := x.resolveLoc(env, ls)
			if err != nil {
				x.errorf("hook havoc: %v", err)
				continue
			}
			x.havocLoc(st, l)
		}
		if len(st.pendingRefs) > 0 {
			x.growAlloc(st)
			st.flushPendingRefs()
		}
		for _, c := range h.Assumes {
			g, err := env.EvalBool(c.Expr)
			if err != nil {
				st.unbound("mon", "assume@"+h.Kind+" "+h.Pattern, x.safetyProps(), pos, c.Expr, err)
				continue
			}
			st.Assume(g)
			x.noteAbstraction(fmt.Sprintf("assumed at %s %s in %s: %s", h.Kind, h.Pattern, x.prog.localKey(x.fn), c.Expr))
		}
		for _, d := range h.Dos {
			x.ghostAssign(st, env, d.Name, d.Expr, h)
		}
	}
}

func (x *Exec) bindResults(env *Env, ret Val) {
	if ret.Typ == nil {
		return
	}
	if tp, ok := ret.Typ.(*types.Tuple); ok {
		for i := 0; i < tp.Len(); i++ {
			lo, hi := tupleRange(tp, i)
			if hi <= len(ret.C) {
				env.vars[fmt.Sprintf("ret%d", i)] = Val{Typ: tp.At(i).Type(), C: ret.C[lo:hi]}
			}
		}
		return
	}
	env.vars["ret0"] = ret
}

func (x *Exec) ghostAssign(st *State, env *Env, name, expr string, h *CallHook) {
	v, err := env.EvalVal(expr)
	if err != nil {
		st.unbound("mon", "do "+name+"@"+h.Kind+" "+h.Pattern, x.safetyProps(), token.NoPos, "do "+name+" = "+expr, err)
		return
	}
	if i := strings.Index(name, "["); i > 0 && strings.HasSuffix(name, "]") {
		base := name[:i]
		kv, err := env.EvalVal(name[i+1 : len(name)-1])
		if err != nil {
			st.unbound("mon", "do "+name+"@"+h.Kind+" "+h.Pattern, x.safetyProps(), token.NoPos, "do "+name+" = "+expr, err)
			return
		}
		g, ok := st.Ghost[base]
		if !ok {
			if gt, isVar := x.prog.contracts.GhostVars[base]; isVar {
				srt, _ := ghostSort(gt)
				cur := st.heapGet("Ghost_heap_"+base, srt)
				st.heapSet("Ghost_heap_"+base, Store(cur, kv.T(), v.T()))
				return
			}
			x.errorf("unknown ghost %s", base)
			return
		}
		st.Ghost[base] = Val{Typ: g.Typ, C: []*T{Store(g.C[0], kv.T(), v.T())}}
		return
	}
	g, ok := st.Ghost[name]
	if !ok {
		if gt, isVar := x.prog.contracts.GhostVars[name]; isVar {
			srt, _ := ghostSort(gt)
			st.heapGet("Ghost_heap_"+name, srt)
			st.heapSet("Ghost_heap_"+name, v.T())
			return
		}
		x.errorf("unknown ghost %s", name)
		return
	}
	st.Ghost[name] = Val{Typ: g.Typ, C: v.C}
}

// paramNames returns the names used in a contract for the callee's parameters and results.
func (x *Exec) contractNames(fc *FuncContract, fn *ssa.Function, sig *types.Signature, nargs int) (params, results []string) {
	if len(fc.Params) > 0 {
		params = fc.Params
	} else if fn != nil {
		for _, p := range fn.Params {
			params = append(params, p.Name())
		}
	}
	for len(params) < nargs {
		params = append(params, fmt.Sprintf("arg%d", len(params)))
	}
	if len(fc.Results) > 0 {
		results = fc.Results
	} else if sig != nil {
		for i := 0; i < sig.Results().Len(); i++ {
			n := sig.Results().At(i).Name()
			if n == "" || n == "_" {
				n = fmt.Sprintf("r%d", i)
			}
			results = append(results, n)
		}
	}
	return
}

// bindRenamed: a parameter, receiver, named result or captured variable that a contract clause names may have been renamed in the source;
// the contract's description of it (locals.go) says which one it is, and the old name is bound to the same value.
func (x *Exec) bindRenamed(env *Env, fc *FuncContract, fn *ssa.Function) {
	if fc == nil || fn == nil || fc.Locals == nil {
		return
	}
	for name := range fc.Locals {
		if _, ok := env.vars[name]; ok {
			continue
		}
		for _, nn := range x.prog.currentNames(fc, fn, name) {
			if v, ok := env.vars[nn]; ok && nn != name {
				env.vars[name] = v
				break
			}
		}
	}
}

// callByContract: assert requires, havoc assigns, assume ensures.
func (x *Exec) callByContract(st *State, fr *Frame, fc *FuncContract, ci calleeInfo, pos token.Pos, kind string) (Val, bool) {
	sig := ci.sig
	if ci.fn != nil {
		sig = ci.fn.Signature
	}
	pn, rn := x.contractNames(fc, ci.fn, sig, len(ci.args))
	env := &Env{x: x, st: st, vars: map[string]Val{}, pkg: x.prog.pkgOfContract(fc, ci.fn)}
	for i, a := range ci.args {
		env.vars[pn[i]] = a
		env.vars[fmt.Sprintf("arg%d", i)] = a
	}
	if ci.fn != nil {
		for i, fv := range ci.fn.FreeVars {
			if i < len(ci.bindings) {
				env.vars[fv.Name()] = st.load(ci.bindings[i])
			}
		}
	}
	x.bindRenamed(env, fc, ci.fn)
	// ghost state private to the callee is existentially quantified for the caller
	for _, g := range fc.Ghosts {
		func() {
			defer func() { recover() }()
			srt, typ := ghostSort(g.Type)
			if typ != nil && len(Layout(typ)) > 1 {
				env.vars[g.Name] = st.freshVal(typ, "cg_"+g.Name)
			} else {
				env.vars[g.Name] = Val{Typ: typ, C: []*T{st.X.fresh("cg_"+g.Name, srt)}}
			}
		}()
	}
	calleeShort := x.stripOwnPkg(ci.key)
	for i, c := range fc.Requires {
		g, err := env.EvalBool(c.Expr)
		lbl := c.Label
		if lbl == "" {
			lbl = fmt.Sprintf("r%d", i+1)
		}
		if err != nil {
			st.unbound("pre", calleeShort+":"+lbl, propsOr(c.Props, propsOr(x.safetyProps(), fc.Props)), pos, c.Expr, err)
			continue
		}
		st.oblige("pre", calleeShort+":"+lbl, g, pos, c.Expr, propsOr(c.Props, propsOr(x.safetyProps(), fc.Props)))
		st.assumeAfter("pre", calleeShort+":"+lbl, g)
	}
	if fc.Flags["noreturn"] {
		return Val{}, true
	}
	if kind == "go" && !fc.Flags["go-sync"] {
		// a spawned function under contract: its declared frame is applied at the spawn point, its postconditions are
		// not assumed (it may not have finished); without a declared frame its effects are not modelled
		if ci.fn != nil && x.prog.touchesChan(ci.fn) {
			st.havocHeap("ChLen")
			st.havocHeap("ChClosed")
			x.noteAbstraction("channel state forgotten at the spawn of " + calleeShort + " (it sends, receives or closes)")
		}
		if fc.HasAssigns {
			x.havocAssigns(st, env, fc)
			if len(st.pendingRefs) > 0 {
				x.growAlloc(st)
				st.flushPendingRefs()
			}
		} else {
			x.noteAbstraction("effects of spawned " + calleeShort + " on shared state not modelled (no assigns clause)")
		}
		return Val{}, false
	}
	old := st.Clone()
	x.havocAssigns(st, env, fc)
	if ci.fn != nil && x.prog.touchesChan(ci.fn) {
		// channel effects cannot be declared in assigns: the callee may have sent, received or closed
		st.havocHeap("ChLen")
		st.havocHeap("ChClosed")
		x.noteAbstraction("channel state forgotten after the call to " + calleeShort + " (it sends, receives or closes)")
	}
	var rv Val
	if sig != nil {
		rv = st.freshVal(sig.Results(), "ret_"+sanitize(calleeShort))
		for i := 0; i < sig.Results().Len(); i++ {
			lo, hi := tupleRange(sig.Results(), i)
			v := Val{Typ: sig.Results().At(i).Type(), C: rv.C[lo:hi]}
			if i < len(rn) {
				env.vars[rn[i]] = v
			}
			env.vars[fmt.Sprintf("r%d", i)] = v
			env.vars[fmt.Sprintf("ret%d", i)] = v
			if sig.Results().Len() == 1 {
				env.vars["result"] = v
			}
		}
		x.growAlloc(st)
		x.assumeResultAllocated(st, sig.Results(), rv)
		x.bindRenamed(env, fc, ci.fn)
	}
	st.flushPendingRefs()
	env.old = old
	env.st = st
	for _, c := range fc.Ensures {
		if id := os.Getenv("GVC_AUDIT_RELY"); id != "" && !fc.Extern && x.contract != nil && contractServes(x.contract, id) && !hasProp(propsOr(c.Props, fc.Props), id) {
			// audit aid: a function serving property id assumes a postcondition that is proved under other properties only
			fmt.Fprintf(os.Stderr, "RELY %s: %s assumes %s#post:%s proved under %v only\n", id, x.contract.Key, fc.Key, c.Label, propsOr(c.Props, fc.Props))
		}
		if !fc.Extern {
			if x.relied == nil {
				x.relied = map[string]map[string]bool{}
			}
			if x.relied[fc.mapKey()] == nil {
				x.relied[fc.mapKey()] = map[string]bool{}
			}
			x.relied[fc.mapKey()][c.Label] = true
		}
		g, err := env.EvalBool(c.Expr)
		if err != nil {
			x.errorf("%s:%d: %v", c.File, c.Line, err)
			continue
		}
		st.Assume(g)
	}
	if sig != nil && sig.Results().Len() == 1 {
		rv.Typ = sig.Results().At(0).Type()
	}
	return rv, false
}

func (x *Exec) growAlloc(st *State) {
	old := st.heapGet("Alloc", ArrSort(SInt, SBool))
	nw := st.X.fresh("Alloc", ArrSort(SInt, SBool))
	r := Sym("r!a", SInt)
	st.Assume(Forall([]*T{r}, Implies(Select(old, r), Select(nw, r))))
	st.Heap["Alloc"] = nw
}

func (x *Exec) stripOwnPkg(key string) string {
	pk := x.pkgName()
	if pk != "" {
		return strings.Replace(key, pk+".", "", 1)
	}
	return key
}

// Loc is a resolved assignable location set.
type Loc struct {
	Arrays []string // heap arrays
	Sorts  []Sort
	Ref    *T   // index within the arrays (nil = whole array / global)
	Key    *T   // for map entries: the key (nil = all keys)
	All    bool // everything
	Ghost  string
	GhostIdx *T // ghost map entry
	Off, Len *T // elems(): the window that may change
	RefLike  []bool // per array: the stored scalar is a reference (pointer, map, chan, slice base)
}

// resolveLoc interprets an assigns entry in env.
func (x *Exec) resolveLoc(env *Env, loc string) (l Loc, err error) {
	defer func() {
		if r := recover(); r != nil {
			if ee, ok := r.(evalError); ok {
				err = fmt.Errorf("%s: in assigns %q", ee.msg, loc)
				return
			}
			panic(r)
		}
	}()
	loc = strings.TrimSpace(loc)
	if loc == "heap" {
		return Loc{All: true}, nil
	}
	if loc == "jsonobjects" {
		// every map[string]interface{} (objects decoded by encoding/json)
		dom, domS, vals, valS := mapArrays(types.NewMap(types.Typ[types.String], types.NewInterfaceType(nil, nil)))
		return Loc{Arrays: append([]string{dom}, vals...), Sorts: append([]Sort{domS}, valS...)}, nil
	}
	if strings.HasPrefix(loc, "ghost ") {
		g := strings.TrimSpace(loc[6:])
		var idx *T
		if i := strings.Index(g, "["); i > 0 && strings.HasSuffix(g, "]") {
			iv, e2 := env.EvalVal(g[i+1 : len(g)-1])
			if e2 != nil {
				return l, e2
			}
			idx = iv.T()
			g = g[:i]
		}
		if gt, ok := x.prog.contracts.GhostVars[g]; ok {
			srt, _ := ghostSort(gt)
			return Loc{Arrays: []string{"Ghost_heap_" + g}, Sorts: []Sort{srt}, Ref: idx}, nil
		}
		return Loc{Ghost: g, GhostIdx: idx}, nil
	}
	if strings.HasPrefix(loc, "elems(") && strings.HasSuffix(loc, ")") {
		v, e2 := env.EvalVal(loc[6 : len(loc)-1])
		if e2 != nil {
			return l, e2
		}
		sl, ok := v.Typ.Underlying().(*types.Slice)
		if !ok {
			return l, fmt.Errorf("elems() of non-slice in assigns %q", loc)
		}
		names, sorts := elemArrays(sl.Elem())
		return Loc{Arrays: names, Sorts: sorts, Ref: v.C[0], Off: v.C[1], Len: v.C[2]}, nil
	}
	if strings.HasPrefix(loc, "mapof(") && strings.HasSuffix(loc, ")") {
		v, e2 := env.EvalVal(loc[6 : len(loc)-1])
		if e2 != nil {
			return l, e2
		}
		mt, ok := v.Typ.Underlying().(*types.Map)
		if !ok {
			return l, fmt.Errorf("mapof() of non-map in assigns %q", loc)
		}
		dom, domS, vals, valS := mapArrays(mt)
		return Loc{Arrays: append([]string{dom}, vals...), Sorts: append([]Sort{domS}, valS...), Ref: v.C[0]}, nil
	}
	if strings.HasPrefix(loc, "mapentry(") && strings.HasSuffix(loc, ")") {
		parts := splitCommaTopStr(loc[9 : len(loc)-1])
		if len(parts) != 2 {
			return l, fmt.Errorf("mapentry(m, k)")
		}
		v, e2 := env.EvalVal(parts[0])
		if e2 != nil {
			return l, e2
		}
		k, e3 := env.EvalVal(parts[1])
		if e3 != nil {
			return l, e3
		}
		mt, ok := v.Typ.Underlying().(*types.Map)
		if !ok {
			return l, fmt.Errorf("mapentry() of non-map in assigns %q", loc)
		}
		dom, domS, vals, valS := mapArrays(mt)
		return Loc{Arrays: append([]string{dom}, vals...), Sorts: append([]Sort{domS}, valS...), Ref: v.C[0], Key: k.T()}, nil
	}
	if strings.HasPrefix(loc, "*") {
		v, e2 := env.EvalVal(loc[1:])
		if e2 != nil {
			return l, e2
		}
		et := deref(v.Typ)
		if isStruct(et) {
			var names []string
			var sorts []Sort
			stru := et.Underlying().(*types.Struct)
			for i := 0; i < stru.NumFields(); i++ {
				if isStruct(stru.Field(i).Type()) {
					continue
				}
				n, s := fieldArrays(et, i)
				names = append(names, n...)
				sorts = append(sorts, s...)
			}
			return Loc{Arrays: names, Sorts: sorts, Ref: v.C[0]}, nil
		}
		names, sorts := boxArrays(et)
		return Loc{Arrays: names, Sorts: sorts, Ref: v.C[0], RefLike: refLikeComps(et)}, nil
	}
	if strings.HasPrefix(loc, "global ") {
		name := strings.TrimSpace(loc[7:])
		var pkg *types.Package = env.pkg
		if i := strings.Index(name, "."); i > 0 {
			for _, imp := range x.prog.importsOf(env.pkg) {
				if imp.Name() == name[:i] {
					pkg = imp
				}
			}
			name = name[i+1:]
		}
		sp := x.prog.ssaPkgOf(pkg)
		if sp != nil {
			if g, ok := sp.Members[name].(*ssa.Global); ok {
				names, sorts := globalNames(g)
				return Loc{Arrays: names, Sorts: sorts}, nil
			}
		}
		return l, fmt.Errorf("unknown global in assigns %q", loc)
	}
	// x.f
	i := strings.LastIndex(loc, ".")
	if i < 0 {
		return l, fmt.Errorf("cannot interpret assigns entry %q", loc)
	}
	base, e2 := env.EvalVal(loc[:i])
	if e2 != nil {
		return l, e2
	}
	fname := loc[i+1:]
	st := deref(base.Typ)
	stru, ok := st.Underlying().(*types.Struct)
	if !ok {
		return l, fmt.Errorf("assigns %q: not a struct", loc)
	}
	for fi := 0; fi < stru.NumFields(); fi++ {
		if stru.Field(fi).Name() == fname {
			if isStruct(stru.Field(fi).Type()) {
				// a nested struct: all of its leaf fields, at the sub-object reference
				ft := stru.Field(fi).Type()
				sub := env.st.subRef(base.C[0], st, fi)
				var names []string
				var sorts []Sort
				fs := ft.Underlying().(*types.Struct)
				for j := 0; j < fs.NumFields(); j++ {
					if isStruct(fs.Field(j).Type()) {
						continue
					}
					n, sr := fieldArrays(ft, j)
					names = append(names, n...)
					sorts = append(sorts, sr...)
				}
				return Loc{Arrays: names, Sorts: sorts, Ref: sub}, nil
			}
			names, sorts := fieldArrays(st, fi)
			return Loc{Arrays: names, Sorts: sorts, Ref: base.C[0], RefLike: refLikeComps(stru.Field(fi).Type())}, nil
		}
	}
	return l, fmt.Errorf("assigns %q: no such field", loc)
}

func (x *Exec) havocAssigns(st *State, env *Env, fc *FuncContract) {
	if !fc.HasAssigns {
		st.havocAllHeap("callee contract " + fc.Key + " has no assigns clause")
		return
	}
	for _, ls := range fc.Assigns {
		l, err := x.resolveLoc(env, ls)
		if err != nil {
			x.errorf("%s:%d: %v", fc.File, fc.Line, err)
			continue
		}
		x.havocLoc(st, l)
	}
}

func (x *Exec) havocLoc(st *State, l Loc) {
	if l.All {
		st.havocAllHeap("assigns heap")
		return
	}
	if l.Ghost != "" {
		if g, ok := st.Ghost[l.Ghost]; ok {
			nv := Val{Typ: g.Typ}
			for _, c := range g.C {
				nv.C = append(nv.C, st.X.fresh("ghost_"+l.Ghost, c.S))
			}
			st.Ghost[l.Ghost] = nv
		}
		return
	}
	for i, n := range l.Arrays {
		cur := st.heapGet(n, l.Sorts[i])
		if l.Ref == nil {
			st.havocHeap(n)
			continue
		}
		_, vs := l.Sorts[i].ArrParts()
		if l.Key != nil {
			_, inner := vs.ArrParts()
			row := Select(cur, l.Ref)
			st.heapSet(n, Store(cur, l.Ref, Store(row, l.Key, st.X.fresh("hv", inner))))
			continue
		}
		nv := st.X.fresh("hv", vs)
		if i < len(l.RefLike) && l.RefLike[i] && vs == SInt {
			// a reference written by the callee / loop points to an object that exists afterwards (checked lazily against
			// the allocation map current when the obligation is emitted: allocation only grows)
			st.pendingRefs = append(st.pendingRefs, nv)
		}
		if l.Off != nil && vs.IsArray() {
			// only the window [off, off+len) of the backing array may change
			k := Sym("k!hv", SInt)
			row := Select(cur, l.Ref)
			st.Assume(Forall([]*T{k}, Implies(Or(Lt(k, l.Off), Ge(k, Add(l.Off, l.Len))), Eq(Select(nv, k), Select(row, k)))))
		}
		st.heapSet(n, Store(cur, l.Ref, nv))
	}
}

// ---------------------------------------------------------------------------
// go / defer

func (x *Exec) execGo(st *State, fr *Frame, n *ssa.Go, b *ssa.BasicBlock, idx int, prev *ssa.BasicBlock) bool {
	ci := x.resolveCall(st, fr, n.Common())
	x.guardArgs(st, fr, n.Common(), n.Pos())
	// a spawned function is either applied by contract/frame, ignored (go-opaque), or inlined synchronously
	return x.dispatchCall(st, fr, ci, nil, n.Pos(), "go", b, idx, prev)
}

func indexOf(b *ssa.BasicBlock, ins ssa.Instruction) int {
	for i, in := range b.Instrs {
		if in == ins {
			return i
		}
	}
	return -1
}

func (x *Exec) execDefer(st *State, fr *Frame, n *ssa.Defer) {
	ci := x.resolveCall(st, fr, n.Common())
	fr.defers = append(fr.defers, deferred{call: n.Common(), args: ci.args, pos: n.Pos(), ins: n, fnV: Val{Clo: &Closure{Fn: ci.fn, Bindings: ci.bindings}, Typ: nil, C: []*T{Sym(ci.key, SInt)}}})
}

// runDeferred executes one deferred call at a RunDefers instruction.
func (x *Exec) runDeferred(st *State, fr *Frame, d deferred, b *ssa.BasicBlock, idx int, prev *ssa.BasicBlock) bool {
	ci := calleeInfo{sig: d.call.Signature(), args: d.args}
	if d.call.IsInvoke() {
		ci.invoke = true
		ci.key = shortenKey(d.call.Method.FullName())
	} else if bi, ok := d.call.Value.(*ssa.Builtin); ok {
		ci.builtin = bi.Name()
		ci.key = "builtin." + bi.Name()
		x.execBuiltinVals(st, fr, ci, d.pos, nil)
		return false
	} else {
		ci.fn = d.fnV.Clo.Fn
		ci.bindings = d.fnV.Clo.Bindings
		ci.key = d.fnV.C[0].Op
	}
	// resume at the same RunDefers instruction (idx-1 so that +1 lands on it)
	return x.dispatchCall(st, fr, ci, nil, d.pos, "call", b, idx-1, prev)
}

// ---------------------------------------------------------------------------
// lock discipline

// guardedField reports whether v is a load of a field declared `guarded F by M`; returns base pointer value and mutex field index.
func (x *Exec) guardedLoad(v ssa.Value) (base ssa.Value, st types.Type, field, mu string, ok bool) {
	u, isU := v.(*ssa.UnOp)
	if !isU || u.Op != token.MUL {
		return
	}
	fa, isF := u.X.(*ssa.FieldAddr)
	if !isF {
		return
	}
	st = deref(fa.X.Type())
	stru := st.Underlying().(*types.Struct)
	named, isN := st.(*types.Named)
	if !isN {
		return
	}
	tc := x.prog.typeContract(named)
	if tc == nil {
		return
	}
	fname := stru.Field(fa.Field).Name()
	m, g := tc.Guarded[fname]
	if !g {
		return
	}
	return fa.X, st, fname, m, true
}

func (x *Exec) guardCheck(st *State, fr *Frame, v ssa.Value, pos token.Pos) {
	base, styp, field, mu, ok := x.guardedLoad(v)
	if !ok {
		return
	}
	bv := x.valueOf(st, fr, base)
	stru := styp.Underlying().(*types.Struct)
	for i := 0; i < stru.NumFields(); i++ {
		if stru.Field(i).Name() == mu {
			m := st.subRef(bv.C[0], styp, i)
			held := Select(st.heapGet("Held", ArrSort(SInt, SBool)), m)
			st.oblige("guard", field, held, pos, "held("+mu+") at use of "+field, x.safetyProps())
			return
		}
	}
}

func (x *Exec) guardArgs(st *State, fr *Frame, c *ssa.CallCommon, pos token.Pos) {
	if c.IsInvoke() {
		x.guardCheck(st, fr, c.Value, pos)
	}
	for _, a := range c.Args {
		x.guardCheck(st, fr, a, pos)
	}
}

// ---------------------------------------------------------------------------
// function return (top frame): postconditions, frame, lock balance

func (x *Exec) atReturn(st *State, fr *Frame, rv Val, pos token.Pos) {
	if x.initMode {
		if x.initFinal == nil {
			x.initFinal = st
		}
		return
	}
	x.countPath()
	x.retCover++
	fc := x.contract
	fr.scopePos = pos
	env := x.envFor(st, fr)
	sig := fr.fn.Signature
	_, rn := x.contractNames(orEmpty(fc), fr.fn, sig, len(fr.params))
	for i := 0; i < sig.Results().Len(); i++ {
		lo, hi := tupleRange(sig.Results(), i)
		v := Val{Typ: sig.Results().At(i).Type(), C: rv.C[lo:hi]}
		if i < len(rn) {
			env.vars[rn[i]] = v
		}
		env.vars[fmt.Sprintf("r%d", i)] = v
		if sig.Results().Len() == 1 {
			env.vars["result"] = v
		}
	}
	x.bindRenamed(env, fc, fr.fn)
	x.recordSignature(fc, fr.fn)
	x.hookEvent(st, fr, "return", "", nil, nil, pos)
	x.hookAfter(st, fr, "return", "", nil, rv, pos)
	if fc == nil {
		return
	}
	for _, c := range fc.Ensures {
		g, err := env.EvalBool(c.Expr)
		if err != nil {
			st.unbound("post", c.Label, propsOr(c.Props, fc.Props), pos, c.Expr, err)
			continue
		}
		st.oblige("post", c.Label, g, pos, c.Expr, propsOr(c.Props, fc.Props))
	}
	if fc.HasAssigns {
		x.frameObligations(st, fr, fc, pos)
	}
	// lock balance: every mutex held at exit was held at entry
	if h, ok := st.Heap["Held"]; ok {
		h0 := x.entry.Heap["Held"]
		if h0 != nil && h.String() != h0.String() {
			st.oblige("guard", "lock-balance", Eq(h, h0), pos, "locks held at return == locks held at entry", x.safetyProps())
		}
	}
}

func orEmpty(fc *FuncContract) *FuncContract {
	if fc == nil {
		return &FuncContract{}
	}
	return fc
}

func (x *Exec) frameObligations(st *State, fr *Frame, fc *FuncContract, pos token.Pos) {
	// resolve allowed locations in the entry state
	env := x.envFor(x.entry, fr)
	env.st = x.entry
	type allow struct {
		ref, key *T
		whole    bool
	}
	allowed := map[string][]allow{}
	all := false
	for _, ls := range fc.Assigns {
		l, err := x.resolveLoc(env, ls)
		if err != nil {
			x.errorf("%s:%d: %v", fc.File, fc.Line, err)
			continue
		}
		if l.All {
			all = true
		}
		for _, n := range l.Arrays {
			allowed[n] = append(allowed[n], allow{ref: l.Ref, key: l.Key, whole: l.Ref == nil})
		}
	}
	if all {
		return
	}
	names := make([]string, 0, len(st.Heap))
	for n := range st.Heap {
		names = append(names, n)
	}
	sort.Strings(names)
	alloc0 := Sym("Alloc!0", ArrSort(SInt, SBool))
	for _, n := range names {
		if n == "Alloc" || n == "Held" || strings.HasPrefix(n, "Ch") {
			continue
		}
		cur := st.Heap[n]
		ent, ok := x.entry.Heap[n]
		if !ok {
			ent = Sym(n+"!0", cur.S)
		}
		if cur.String() == ent.String() {
			continue
		}
		var goal *T
		if !cur.S.IsArray() || strings.HasPrefix(n, "G_") {
			wholeOK := false
			for _, a := range allowed[n] {
				if a.whole {
					wholeOK = true
				}
			}
			if wholeOK {
				continue
			}
			goal = Eq(cur, ent)
		} else {
			r := Sym("r!f", SInt)
			conds := []*T{Select(alloc0, r)}
			skip := false
			var keyed []allow
			for _, a := range allowed[n] {
				if a.whole {
					skip = true
				} else if a.key != nil {
					keyed = append(keyed, a)
				} else {
					conds = append(conds, Ne(r, a.ref))
				}
			}
			if skip {
				continue
			}
			if len(keyed) == 0 {
				goal = Forall([]*T{r}, Implies(And(conds...), Eq(Select(cur, r), Select(ent, r))))
			} else {
				_, vs := cur.S.ArrParts()
				ks, _ := vs.ArrParts()
				k := Sym("k!f", ks)
				var kc []*T
				for _, a := range keyed {
					kc = append(kc, Or(Ne(r, a.ref), Ne(k, a.key)))
				}
				goal = Forall([]*T{r, k}, Implies(And(append(conds, kc...)...), Eq(Select(Select(cur, r), k), Select(Select(ent, r), k))))
			}
		}
		st.oblige("frame", n, goal, pos, "only the declared locations of "+n+" change", propsOr(nil, fc.Props))
	}
}


// bindActiveLoopVars exposes idx/idxN/visited of the loops that are active at an event (innermost loop = idx).
func (x *Exec) bindActiveLoopVars(env *Env, st *State, fr *Frame) {
	var inner *ssa.BasicBlock
	for h := range fr.active {
		if inner == nil || len(fr.loops.body[h]) < len(fr.loops.body[inner]) {
			inner = h
		}
	}
	env.vars["inloop"] = intVal(IntLit(0))
	if inner == nil {
		env.vars["idx"] = intVal(IntLit(-1)) // no loop is active at this event
	}
	if inner != nil {
		x.bindLoopVars(env, st, fr, inner)
		env.vars["inloop"] = intVal(IntLit(int64(fr.loops.ordinal[inner])))
		if _, ok := env.vars["idx"]; !ok {
			// the innermost loop has no index (a range over a map, a plain for): a clause written for an indexed loop
			// still evaluates, and its `inloop == N` guards tell the loops apart
			env.vars["idx"] = intVal(IntLit(-1))
		}
	}
}

// refLikeComps tells, per layout component of a Go type, whether the component is an object reference.
func refLikeComps(t types.Type) []bool {
	lay := Layout(t)
	out := make([]bool, len(lay))
	switch t.Underlying().(type) {
	case *types.Pointer, *types.Map, *types.Chan:
		if len(out) == 1 {
			out[0] = true
		}
	case *types.Slice:
		if len(out) > 0 {
			out[0] = true
		}
	}
	return out
}

// flushPendingRefs assumes that references produced by a havoc are nil or allocated in the current allocation map.
func (s *State) flushPendingRefs() {
	if len(s.pendingRefs) == 0 {
		return
	}
	al := s.heapGet("Alloc", ArrSort(SInt, SBool))
	for _, r := range s.pendingRefs {
		s.Assume(Or(Eq(r, IntLit(0)), Select(al, r)))
	}
	s.pendingRefs = nil
}
