package main

import "fmt"

type replayOutcome struct {
	Driver     string `json:"driver"`
	Reproduced bool   `json:"reproduced"`
	Input      string `json:"input,omitempty"`
	Output     string `json:"output,omitempty"`
	Note       string `json:"note,omitempty"`
}

func (r *Report) tryReplay(o checkOpts, ob *Obligation, rf *replayFile) *replayOutcome {
	return &replayOutcome{Note: "no replay driver for this function"}
}

func cmdReplay(args []string) int {
	fmt.Println("replay: not yet implemented")
	return 2
}

func cmdSelftest(args []string) int {
	fmt.Println("selftest: not yet implemented")
	return 2
}
