package main

import (
	"encoding/json"
	"fmt"
	"os"
	"os/exec"
	"path/filepath"
	"regexp"
	"strings"
	"time"
)

type replayOutcome struct {
	Driver     string `json:"driver"`
	Reproduced bool   `json:"reproduced"`
	Input      string `json:"input,omitempty"`
	Output     string `json:"output,omitempty"`
	Note       string `json:"note,omitempty"`
}

// A replay driver is a Go test kept under /verif/replay (or a seeded change's demonstration) that exercises the real
// code with a concrete failing input, schedule or history for one named obligation. It is injected into the package
// with `go test -overlay`, so nothing is written to the repository. A violation counts as replayed only when the
// test fails on the code under check.
type replayDriver struct {
	Obligation string   `json:"obligation"` // regular expression on the obligation name
	Dir        string   `json:"dir"`        // package directory relative to the repository root
	Files      []string `json:"files"`      // files relative to /verif; *_test.go are injected as tests
	Run        string   `json:"run"`        // -run regular expression
	Race       bool     `json:"race"`
	Input      string   `json:"input"` // what the test feeds the code
	Template   string   `json:"template"` // optional: a test file with {{p_name}} placeholders filled from the solver's model
}

func loadDrivers() []replayDriver {
	b, err := os.ReadFile(filepath.Join(verifDir, "replay", "drivers.json"))
	if err != nil {
		return nil
	}
	var ds []replayDriver
	if json.Unmarshal(b, &ds) != nil {
		return nil
	}
	return ds
}

// modelValue turns an SMT-LIB integer such as "17" or "(- 5)" into Go syntax.
func modelValue(v string) string {
	v = strings.TrimSpace(v)
	if strings.HasPrefix(v, "(-") {
		return "-" + strings.TrimSpace(strings.TrimSuffix(strings.TrimPrefix(v, "(-"), ")"))
	}
	return v
}

func runDriver(repo string, d replayDriver) (bool, string, error) {
	return runDriverModel(repo, d, nil)
}

func runDriverModel(repo string, d replayDriver, model map[string]string) (bool, string, error) {
	tmp, err := os.MkdirTemp("", "gvc-replay-")
	if err != nil {
		return false, "", err
	}
	defer os.RemoveAll(tmp)
	ov := map[string]map[string]string{"Replace": {}}
	if d.Template != "" {
		b, err := os.ReadFile(filepath.Join(verifDir, d.Template))
		if err != nil {
			return false, "", err
		}
		txt := string(b)
		re := regexp.MustCompile(`\{\{(\w+)\}\}`)
		missing := ""
		txt = re.ReplaceAllStringFunc(txt, func(m string) string {
			name := m[2 : len(m)-2]
			for k, v := range model {
				if k == name || strings.HasPrefix(k, name+"!") {
					return modelValue(v)
				}
			}
			missing = name
			return "0"
		})
		if missing != "" {
			return false, "", fmt.Errorf("the model has no value for %s", missing)
		}
		f := filepath.Join(tmp, "model_test.go")
		os.WriteFile(f, []byte(txt), 0o644)
		ov["Replace"][filepath.Join(repo, d.Dir, "zz_gvc_replay_model_test.go")] = f
	}
	for i, f := range d.Files {
		src := filepath.Join(verifDir, f)
		if !fileExists(src) {
			return false, "", fmt.Errorf("driver file %s missing", src)
		}
		name := fmt.Sprintf("zz_gvc_replay_%d.go", i)
		if strings.HasSuffix(f, "_test.go") {
			name = fmt.Sprintf("zz_gvc_replay_%d_test.go", i)
		}
		ov["Replace"][filepath.Join(repo, d.Dir, name)] = src
	}
	ob, _ := json.Marshal(ov)
	ovf := filepath.Join(tmp, "overlay.json")
	os.WriteFile(ovf, ob, 0o644)
	args := []string{"test", "-overlay", ovf, "-vet=off", "-count=1", "-timeout", "90s", "-run", d.Run}
	if d.Race {
		args = append(args, "-race")
	}
	args = append(args, "./"+d.Dir+"/")
	cmd := exec.Command("go", args...)
	cmd.Dir = repo
	cmd.Env = append(os.Environ(), "GOFLAGS=-mod=mod", "GOPROXY=off", "GOSUMDB=off", "GOTOOLCHAIN=local")
	done := make(chan struct{})
	var out []byte
	var rerr error
	go func() { out, rerr = cmd.CombinedOutput(); close(done) }()
	select {
	case <-done:
	case <-time.After(240 * time.Second):
		if cmd.Process != nil {
			cmd.Process.Kill()
		}
		<-done
		return false, truncate(string(out), 4000), fmt.Errorf("replay timed out")
	}
	s := string(out)
	if rerr == nil {
		return false, truncate(s, 4000), nil
	}
	if strings.Contains(s, "[build failed]") || strings.Contains(s, "[setup failed]") {
		return false, truncate(s, 4000), fmt.Errorf("replay test does not build against this tree")
	}
	// the test ran and failed (assertion, panic, race report or deadlock): the concrete input fails on the real code
	return strings.Contains(s, "FAIL"), truncate(s, 4000), nil
}

func (r *Report) tryReplay(o checkOpts, ob *Obligation, rf *replayFile) *replayOutcome {
	if o.noWrite {
		return &replayOutcome{Note: "replay skipped (--no-evidence)"}
	}
	for _, d := range loadDrivers() {
		re, err := regexp.Compile(d.Obligation)
		if err != nil || !re.MatchString(ob.Name) {
			continue
		}
		rep, out, err := runDriverModel(o.repo, d, rf.Model)
		oc := &replayOutcome{Driver: strings.Join(d.Files, ",") + d.Template + " -run " + d.Run, Reproduced: rep, Input: d.Input, Output: out}
		if d.Template != "" {
			var used []string
			if tb, e := os.ReadFile(filepath.Join(verifDir, d.Template)); e == nil {
				for _, m := range regexp.MustCompile(`\{\{(\w+)\}\}`).FindAllStringSubmatch(string(tb), -1) {
					for k, v := range rf.Model {
						if k == m[1] || strings.HasPrefix(k, m[1]+"!") {
							used = append(used, m[1]+" = "+modelValue(v))
						}
					}
				}
			}
			oc.Input = d.Input + ": " + strings.Join(used, ", ")
		}
		if err != nil {
			oc.Note = err.Error()
		} else if !rep {
			oc.Note = "the driver's input does not fail on this tree"
		}
		if rep {
			return oc
		}
		rf.Replay = oc
	}
	if rf.Replay != nil {
		return rf.Replay
	}
	return &replayOutcome{Note: "no replay driver for this obligation; the verifier's output is attached"}
}

// cmdReplay re-runs what a replay file records: the Go driver against /repo when there is one, otherwise the
// recorded solver query. Exit 1: the failure is still there; exit 0: it is not.
func cmdReplay(args []string) int {
	if len(args) < 1 {
		usage()
	}
	repo := "/repo"
	if len(args) > 2 && args[1] == "--repo" {
		repo = args[2]
	}
	b, err := os.ReadFile(args[0])
	if err != nil {
		fmt.Println("TOOL-ERROR:", err)
		return 2
	}
	var rf replayFile
	if err := json.Unmarshal(b, &rf); err != nil {
		fmt.Println("TOOL-ERROR:", err)
		return 2
	}
	fmt.Printf("replay of %s (property %s) at %s\n  goal: %s\n  recorded verdict: %s (%s)\n", rf.Obligation, rf.Property, rf.Position, rf.Goal, rf.Verdict, rf.SolverNotes)
	for _, d := range loadDrivers() {
		re, err := regexp.Compile(d.Obligation)
		if err != nil || !re.MatchString(rf.Obligation) {
			continue
		}
		rep, out, err := runDriverModel(repo, d, rf.Model)
		fmt.Printf("driver %v%s -run %s: reproduced=%v\n%s\n", d.Files, d.Template, d.Run, rep, out)
		if err != nil {
			fmt.Println("  note:", err)
		}
		if rep {
			fmt.Printf("VIOLATION property=%s replay=%s\n", rf.Property, args[0])
			return 1
		}
	}
	if rf.SMT != "" {
		tmp, _ := os.MkdirTemp("", "gvc-replay-")
		defer os.RemoveAll(tmp)
		f := filepath.Join(tmp, "q.smt2")
		os.WriteFile(f, []byte(rf.SMT), 0o644)
		for _, s := range []string{"z3-new", "z3", "cvc5"} {
			a := []string{"-T:60", f}
			if s == "cvc5" {
				a = []string{"--tlimit=60000", f}
			}
			out, _ := exec.Command(s, a...).CombinedOutput()
			first := strings.SplitN(strings.TrimSpace(string(out)), "\n", 2)[0]
			fmt.Printf("  %s: %s\n", s, first)
			if first == "unsat" {
				fmt.Println("the recorded query is discharged now")
				return 0
			}
			if first == "sat" {
				fmt.Printf("VIOLATION property=%s replay=%s no-failing-input-found\n", rf.Property, args[0])
				return 1
			}
		}
		fmt.Printf("VIOLATION property=%s replay=%s no-failing-input-found\n", rf.Property, args[0])
		return 1
	}
	fmt.Println("nothing to re-run: no driver and no recorded query")
	return 1
}

func cmdSelftest(args []string) int {
	cmd := exec.Command(filepath.Join(verifDir, "tools", "selftest.sh"), args...)
	cmd.Stdout, cmd.Stderr = os.Stdout, os.Stderr
	if err := cmd.Run(); err != nil {
		return 1
	}
	return 0
}
