package main

import (
	"go/token"
	"go/types"
	"strconv"
	"strings"

	"golang.org/x/tools/go/ssa"
)

type modSet struct {
	all    bool
	heap   map[string]bool
	sorts  map[string]Sort
	cells  map[*ssa.Alloc]bool
	allocs bool
}

func newModSet() *modSet {
	return &modSet{heap: map[string]bool{}, sorts: map[string]Sort{}, cells: map[*ssa.Alloc]bool{}}
}

func (m *modSet) add(names []string, sorts []Sort) {
	for i, n := range names {
		m.heap[n] = true
		m.sorts[n] = sorts[i]
	}
}

func (m *modSet) union(o *modSet) {
	if o.all {
		m.all = true
	}
	for k := range o.heap {
		m.heap[k] = true
		m.sorts[k] = o.sorts[k]
	}
	for k := range o.cells {
		m.cells[k] = true
	}
	if o.allocs {
		m.allocs = true
	}
}

func (m *modSet) addStructFields(st types.Type) {
	stru, ok := st.Underlying().(*types.Struct)
	if !ok {
		return
	}
	for i := 0; i < stru.NumFields(); i++ {
		if isStruct(stru.Field(i).Type()) {
			m.addStructFields(stru.Field(i).Type())
			continue
		}
		m.add(fieldArrays(st, i))
	}
}

func (m *modSet) addPointee(t types.Type) {
	et := deref(t)
	if isStruct(et) {
		m.addStructFields(et)
		return
	}
	m.add(boxArrays(et))
}

func (m *modSet) addMap(t types.Type) {
	mt, ok := t.Underlying().(*types.Map)
	if !ok {
		return
	}
	dom, domS, vals, valS := mapArrays(mt)
	m.add([]string{dom}, []Sort{domS})
	m.add(vals, valS)
}

func (m *modSet) addElems(t types.Type) {
	switch u := t.Underlying().(type) {
	case *types.Slice:
		m.add(elemArrays(u.Elem()))
	case *types.Pointer:
		if at, ok := u.Elem().Underlying().(*types.Array); ok {
			m.add(elemArrays(at.Elem()))
		}
	}
}

func (m *modSet) addChan() {
	m.add([]string{"ChLen", "ChClosed"}, []Sort{ArrSort(SInt, SInt), ArrSort(SInt, SBool)})
}

func (p *Program) modSetOfFunc(fn *ssa.Function, x *Exec, stack map[*ssa.Function]bool) *modSet {
	if ms, ok := p.modsets[fn]; ok {
		return ms
	}
	if stack[fn] {
		ms := newModSet()
		ms.all = true
		return ms
	}
	stack[fn] = true
	blocks := map[*ssa.BasicBlock]bool{}
	for _, b := range fn.Blocks {
		blocks[b] = true
	}
	ms := p.modSetBlocks(fn, blocks, x, stack)
	delete(stack, fn)
	p.modsets[fn] = ms
	return ms
}

func (p *Program) modSetOfBlocks(fn *ssa.Function, blocks map[*ssa.BasicBlock]bool, x *Exec) *modSet {
	return p.modSetBlocks(fn, blocks, x, map[*ssa.Function]bool{fn: true})
}

func (p *Program) modSetBlocks(fn *ssa.Function, blocks map[*ssa.BasicBlock]bool, x *Exec, stack map[*ssa.Function]bool) *modSet {
	ms := newModSet()
	for _, b := range fn.Blocks {
		if !blocks[b] {
			continue
		}
		for _, ins := range b.Instrs {
			switch n := ins.(type) {
			case *ssa.Store:
				p.modStore(ms, n.Addr)
			case *ssa.MapUpdate:
				ms.addMap(n.Map.Type())
			case *ssa.Alloc:
				ms.allocs = true
				et := deref(n.Type())
				if isStruct(et) {
					ms.addStructFields(et)
				} else if n.Heap {
					ms.add(boxArrays(et))
				} else {
					ms.cells[n] = true
				}
			case *ssa.MakeMap:
				ms.allocs = true
				ms.addMap(n.Type())
			case *ssa.MakeSlice:
				ms.allocs = true
				ms.addElems(n.Type())
			case *ssa.MakeChan:
				ms.allocs = true
				ms.addChan()
				ms.add([]string{"ChCap"}, []Sort{ArrSort(SInt, SInt)})
			case *ssa.MakeClosure:
				ms.allocs = true
			case *ssa.Convert:
				if _, ok := n.Type().Underlying().(*types.Slice); ok {
					ms.allocs = true
					ms.addElems(n.Type())
				}
			case *ssa.Send:
				ms.addChan()
			case *ssa.Select:
				ms.addChan()
			case *ssa.Call:
				p.modCall(ms, fn, n.Common(), x, stack, "call")
			case *ssa.Go:
				p.modCall(ms, fn, n.Common(), x, stack, "go")
			case *ssa.Defer:
				p.modCall(ms, fn, n.Common(), x, stack, "call")
			}
		}
	}
	return ms
}

func (p *Program) modStore(ms *modSet, addr ssa.Value) {
	switch a := addr.(type) {
	case *ssa.Alloc:
		et := deref(a.Type())
		if isStruct(et) {
			ms.addStructFields(et)
		} else if a.Heap {
			ms.add(boxArrays(et))
		} else {
			ms.cells[a] = true
		}
	case *ssa.FieldAddr:
		st := deref(a.X.Type())
		stru := st.Underlying().(*types.Struct)
		if isStruct(stru.Field(a.Field).Type()) {
			ms.addStructFields(stru.Field(a.Field).Type())
		} else {
			ms.add(fieldArrays(st, a.Field))
		}
	case *ssa.IndexAddr:
		ms.addElems(a.X.Type())
	case *ssa.Global:
		names, sorts := globalNames(a)
		ms.add(names, sorts)
	default:
		ms.addPointee(addr.Type())
	}
}

var nativeMods = map[string]func(ms *modSet, c *ssa.CallCommon){
	"(*sync.Mutex).Lock": func(ms *modSet, c *ssa.CallCommon) {
		ms.add([]string{"Held"}, []Sort{ArrSort(SInt, SBool)})
		ms.all = true // guarded state may change while the lock is not held
	},
	"(*sync.Mutex).Unlock": func(ms *modSet, c *ssa.CallCommon) { ms.add([]string{"Held"}, []Sort{ArrSort(SInt, SBool)}) },
	"(http.Header).Set": func(ms *modSet, c *ssa.CallCommon) {
		ms.addMap(c.Args[0].Type())
		ms.add(elemArrays(types.Typ[types.String]))
		ms.allocs = true
	},
	"(http.Header).Add": func(ms *modSet, c *ssa.CallCommon) {
		ms.addMap(c.Args[0].Type())
		ms.add(elemArrays(types.Typ[types.String]))
		ms.allocs = true
	},
	"(http.Header).Del": func(ms *modSet, c *ssa.CallCommon) { ms.addMap(c.Args[0].Type()) },
	"json.Unmarshal": func(ms *modSet, c *ssa.CallCommon) {
		ms.allocs = true
		if mi, ok := c.Args[1].(*ssa.MakeInterface); ok {
			if a, ok := mi.X.(*ssa.Alloc); ok && !a.Heap && !isStruct(deref(a.Type())) {
				ms.cells[a] = true
				return
			}
			ms.addPointee(mi.X.Type())
			return
		}
		ms.all = true
	},
}

var nativePure = map[string]bool{
	"http.CanonicalHeaderKey": true, "textproto.CanonicalMIMEHeaderKey": true, "strings.ToLower": true, "strings.Contains": true,
	"strings.HasPrefix": true, "strings.CutPrefix": true, "strings.TrimPrefix": true, "(http.Header).Get": true,
	"(http.Header).Values": true, "math.Log2": true, "fmt.Sprintf": true, "fmt.Errorf": true, "(time.Duration).Nanoseconds": true, "rand.Float64": true,
}

func (p *Program) modCall(ms *modSet, fn *ssa.Function, c *ssa.CallCommon, x *Exec, stack map[*ssa.Function]bool, kind string) {
	if b, ok := c.Value.(*ssa.Builtin); ok {
		switch b.Name() {
		case "append":
			ms.allocs = true
			ms.addElems(c.Args[0].Type())
		case "copy":
			ms.addElems(c.Args[0].Type())
		case "delete":
			ms.addMap(c.Args[0].Type())
		case "close":
			ms.addChan()
		}
		return
	}
	var key string
	var callee *ssa.Function
	if c.IsInvoke() {
		key = shortenKey(c.Method.FullName())
	} else if f := c.StaticCallee(); f != nil {
		callee = f
		key = shortenKey(f.String())
	} else {
		ms.all = true
		return
	}
	if callee != nil {
		if fc := p.contractFor(callee); fc != nil && !fc.Flags["inline"] && p.touchesChan(callee) {
			ms.addChan()
		}
		if fc := p.contractFor(callee); fc != nil && !fc.Flags["inline"] {
			p.modContract(ms, fc, callee, callee.Signature, c)
			return
		}
	}
	if f, ok := nativeMods[key]; ok {
		f(ms, c)
		return
	}
	if nativePure[key] {
		return
	}
	if fc, ok := p.contracts.Funcs[key]; ok && fc.Extern {
		p.modContract(ms, fc, callee, c.Signature(), c)
		return
	}
	if callee != nil && len(callee.Blocks) > 0 && p.isRepoFn(callee) {
		if kind == "go" && x != nil && x.goOpaque(key) {
			return
		}
		sub := p.modSetOfFunc(callee, x, stack)
		// local cells of the callee are not visible to the caller
		cp := newModSet()
		cp.union(sub)
		cp.cells = map[*ssa.Alloc]bool{}
		ms.union(cp)
		// closures write captured variables through FreeVars: those are boxes (heap) and already included
		return
	}
	ms.all = true
}

// modContract adds the arrays named by a contract's assigns clause, resolved by static types.
func (p *Program) modContract(ms *modSet, fc *FuncContract, callee *ssa.Function, sig *types.Signature, c *ssa.CallCommon) {
	if !fc.HasAssigns {
		ms.all = true
		return
	}
	// static environment: parameter name -> type
	env := map[string]types.Type{}
	var ptypes []types.Type
	if c.IsInvoke() {
		ptypes = append(ptypes, c.Value.Type())
	} else if sig.Recv() != nil {
		ptypes = append(ptypes, sig.Recv().Type())
	}
	for i := 0; i < sig.Params().Len(); i++ {
		ptypes = append(ptypes, sig.Params().At(i).Type())
	}
	var names []string
	if len(fc.Params) > 0 {
		names = fc.Params
	} else if callee != nil {
		for _, pr := range callee.Params {
			names = append(names, pr.Name())
		}
	}
	for i, t := range ptypes {
		if i < len(names) {
			env[names[i]] = t
		}
		env["arg"+itoa(i)] = t
	}
	if callee != nil {
		for _, fv := range callee.FreeVars {
			env[fv.Name()] = deref(fv.Type())
		}
	}
	for _, loc := range fc.Assigns {
		if !p.staticLoc(ms, env, strings.TrimSpace(loc), fc, callee) {
			ms.all = true
		}
	}
	if sig.Results().Len() > 0 {
		ms.allocs = true
	}
}

func itoa(i int) string { return strconv.Itoa(i) }

func (p *Program) staticType(env map[string]types.Type, expr string) types.Type {
	expr = strings.TrimSpace(expr)
	parts := strings.Split(expr, ".")
	t, ok := env[parts[0]]
	if !ok {
		return nil
	}
	for _, f := range parts[1:] {
		stru := structOf(t)
		if stru == nil {
			return nil
		}
		found := false
		for i := 0; i < stru.NumFields(); i++ {
			if stru.Field(i).Name() == f {
				t = stru.Field(i).Type()
				found = true
				break
			}
		}
		if !found {
			return nil
		}
	}
	return t
}

func (p *Program) staticLoc(ms *modSet, env map[string]types.Type, loc string, fc *FuncContract, callee *ssa.Function) bool {
	switch {
	case loc == "heap":
		ms.all = true
		return true
	case loc == "jsonobjects":
		ms.addMap(types.NewMap(types.Typ[types.String], types.NewInterfaceType(nil, nil)))
		return true
	case strings.HasPrefix(loc, "ghost "):
		g := strings.TrimSpace(loc[6:])
		if i := strings.Index(g, "["); i > 0 {
			g = g[:i]
		}
		if gt, ok := p.contracts.GhostVars[g]; ok {
			srt, _ := ghostSort(gt)
			ms.add([]string{"Ghost_heap_" + g}, []Sort{srt})
		}
		return true
	case strings.HasPrefix(loc, "elems(") && strings.HasSuffix(loc, ")"):
		t := p.staticType(env, loc[6:len(loc)-1])
		if t == nil {
			return false
		}
		ms.addElems(t)
		return true
	case strings.HasPrefix(loc, "mapof(") && strings.HasSuffix(loc, ")"):
		t := p.staticType(env, loc[6:len(loc)-1])
		if t == nil {
			return false
		}
		ms.addMap(t)
		return true
	case strings.HasPrefix(loc, "mapentry(") && strings.HasSuffix(loc, ")"):
		parts := splitCommaTopStr(loc[9 : len(loc)-1])
		t := p.staticType(env, parts[0])
		if t == nil {
			return false
		}
		ms.addMap(t)
		return true
	case strings.HasPrefix(loc, "*"):
		t := p.staticType(env, loc[1:])
		if t == nil {
			return false
		}
		ms.addPointee(t)
		return true
	case strings.HasPrefix(loc, "global "):
		name := strings.TrimSpace(loc[7:])
		var sp *ssa.Package
		if callee != nil {
			f := callee
			for f.Parent() != nil {
				f = f.Parent()
			}
			sp = f.Pkg
		} else if fc.PkgPath != "" {
			sp = p.ssaPkgs[fc.PkgPath]
		}
		if i := strings.Index(name, "."); i > 0 {
			for pth, q := range p.ssaPkgs {
				_ = pth
				if q.Pkg.Name() == name[:i] {
					sp = q
				}
			}
			name = name[i+1:]
		}
		if sp == nil {
			return false
		}
		g, ok := sp.Members[name].(*ssa.Global)
		if !ok {
			return false
		}
		ms.add(globalNames(g))
		return true
	}
	i := strings.LastIndex(loc, ".")
	if i < 0 {
		return false
	}
	bt := p.staticType(env, loc[:i])
	if bt == nil {
		return false
	}
	st := deref(bt)
	stru, ok := st.Underlying().(*types.Struct)
	if !ok {
		return false
	}
	for fi := 0; fi < stru.NumFields(); fi++ {
		if stru.Field(fi).Name() == loc[i+1:] {
			if isStruct(stru.Field(fi).Type()) {
				ms.addStructFields(stru.Field(fi).Type())
				return true
			}
			ms.add(fieldArrays(st, fi))
			return true
		}
	}
	return false
}

// touchesChan reports whether executing fn (its body, its closures and its statically known repository callees) can
// change the state of a channel: a send, a receive, a close or a select. Channel effects cannot be declared in an
// assigns clause, so callers of a function under contract forget the channel state when this is true.
func (p *Program) touchesChan(fn *ssa.Function) bool {
	return p.touchesChanRec(fn, map[*ssa.Function]bool{})
}

func (p *Program) touchesChanRec(fn *ssa.Function, seen map[*ssa.Function]bool) bool {
	if fn == nil || seen[fn] || !p.isRepoFn(fn) {
		return false
	}
	seen[fn] = true
	p.mu.Lock()
	if v, ok := p.chanTouch[fn]; ok {
		p.mu.Unlock()
		return v
	}
	p.mu.Unlock()
	res := false
	for _, b := range fn.Blocks {
		for _, ins := range b.Instrs {
			switch n := ins.(type) {
			case *ssa.Send, *ssa.Select:
				res = true
			case *ssa.UnOp:
				if n.Op == token.ARROW {
					res = true
				}
			case *ssa.Call:
				if bi, ok := n.Call.Value.(*ssa.Builtin); ok && bi.Name() == "close" {
					res = true
				} else if sc := n.Call.StaticCallee(); sc != nil && p.touchesChanRec(sc, seen) {
					res = true
				}
			case *ssa.Go:
				if sc := n.Call.StaticCallee(); sc != nil && p.touchesChanRec(sc, seen) {
					res = true
				}
			case *ssa.Defer:
				if bi, ok := n.Call.Value.(*ssa.Builtin); ok && bi.Name() == "close" {
					res = true
				} else if sc := n.Call.StaticCallee(); sc != nil && p.touchesChanRec(sc, seen) {
					res = true
				}
			case *ssa.MakeClosure:
				if cf, ok := n.Fn.(*ssa.Function); ok && p.touchesChanRec(cf, seen) {
					res = true
				}
			}
		}
	}
	p.mu.Lock()
	if p.chanTouch == nil {
		p.chanTouch = map[*ssa.Function]bool{}
	}
	p.chanTouch[fn] = res
	p.mu.Unlock()
	return res
}
