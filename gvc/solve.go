package main

import (
	"bytes"
	"context"
	"fmt"
	"os"
	"os/exec"
	"path/filepath"
	"sort"
	"strings"
	"sync"
	"syscall"
	"time"
)

type SolverCfg struct {
	TimeoutS   int
	CrossCheck bool // run all solvers to completion and compare
	WorkDir    string
	Seed       int
	Parallel   int
}

// emitSMT renders one obligation as an SMT-LIB 2 script.
func (p *Program) emitSMT(ob *Obligation, forCVC5 bool) string {
	var sb strings.Builder
	if forCVC5 {
		sb.WriteString("(set-option :produce-models true)\n")
	}
	sb.WriteString("(set-logic ALL)\n")
	if !forCVC5 {
		sb.WriteString("(set-option :produce-models true)\n")
	}
	sb.WriteString("(declare-sort Str 0)\n")
	d := NewDecls()
	terms := append([]*T{}, ob.Assume...)
	terms = append(terms, ob.Goal)
	for _, t := range terms {
		d.Collect(t, nil)
	}
	// definitional axioms of the spec functions that occur (closure)
	var defs []*T
	usedDef := map[string]bool{}
	for changed := true; changed; {
		changed = false
		for name, ax := range p.defAxioms {
			if !usedDef[name] && d.Has(strings.TrimPrefix(name, "wf:")) {
				usedDef[name] = true
				defs = append(defs, ax)
				d.Collect(ax, nil)
				changed = true
			}
		}
	}
	sort.Slice(defs, func(i, j int) bool { return defs[i].String() < defs[j].String() })
	bg := p.background(d)
	for _, t := range bg {
		d.Collect(t, nil)
	}
	// second round: background facts may mention further literals
	bg2 := p.background(d)
	if len(bg2) > len(bg) {
		for _, t := range bg2 {
			d.Collect(t, nil)
		}
		bg = bg2
	}
	d.Emit(&sb)
	for _, t := range defs {
		sb.WriteString("(assert ")
		sb.WriteString(t.String())
		sb.WriteString(")\n")
	}
	for _, t := range bg {
		sb.WriteString("(assert ")
		sb.WriteString(t.String())
		sb.WriteString(")\n")
	}
	seen := map[string]bool{}
	for _, t := range ob.Assume {
		ts := t.String()
		if seen[ts] {
			continue
		}
		seen[ts] = true
		sb.WriteString("(assert ")
		sb.WriteString(ts)
		sb.WriteString(")\n")
	}
	if ob.Vacuity {
		sb.WriteString("(assert ")
		sb.WriteString(ob.Goal.String())
		sb.WriteString(")\n")
	} else {
		sb.WriteString("(assert (not ")
		sb.WriteString(ob.Goal.String())
		sb.WriteString("))\n")
	}
	sb.WriteString("(check-sat)\n(get-model)\n")
	return sb.String()
}

// background returns the axioms relevant for the symbols declared in d.
func (p *Program) background(d *Decls) []*T {
	var out []*T
	// string literals
	var lits []string
	p.mu.Lock()
	litVals := map[string]string{}
	for name, v := range p.strVals {
		if d.Has(name) {
			lits = append(lits, name)
			litVals[name] = v
		}
	}
	p.mu.Unlock()
	sort.Strings(lits)
	if len(lits) > 1 {
		var args []*T
		for _, l := range lits {
			args = append(args, Sym(l, SStr))
		}
		out = append(out, App("distinct", SBool, args...))
	}
	for _, l := range lits {
		v := litVals[l]
		if d.Has("slen") {
			out = append(out, Eq(App("slen", SInt, Sym(l, SStr)), IntLit(int64(len(v)))))
		}
		if d.Has("lower") {
			out = append(out, Eq(App("lower", SStr, Sym(l, SStr)), p.strLit(strings.ToLower(v))))
		}
		if d.Has("canon") {
			out = append(out, Eq(App("canon", SStr, Sym(l, SStr)), p.strLit(canonicalHeaderKey(v))))
		}
	}
	if d.Has("hasPrefix") || d.Has("contains") {
		for _, a := range lits {
			for _, b := range lits {
				va, vb := litVals[a], litVals[b]
				if d.Has("hasPrefix") {
					f := App("hasPrefix", SBool, Sym(a, SStr), Sym(b, SStr))
					if strings.HasPrefix(va, vb) {
						out = append(out, f)
					} else {
						out = append(out, Not(f))
					}
				}
				if d.Has("contains") {
					f := App("contains", SBool, Sym(a, SStr), Sym(b, SStr))
					if strings.Contains(va, vb) {
						out = append(out, f)
					} else {
						out = append(out, Not(f))
					}
				}
			}
		}
	}
	if d.Has("slen") {
		s := Sym("s!ax", SStr)
		out = append(out, Forall([]*T{s}, pattern(Ge(App("slen", SInt, s), IntLit(0)), App("slen", SInt, s))))
		// the empty string is the only string of length 0
		out = append(out, Forall([]*T{s}, pattern(Implies(Eq(App("slen", SInt, s), IntLit(0)), Eq(s, p.strLit(""))), App("slen", SInt, s))))
	}
	if d.Has("hasPrefix") {
		s := Sym("s!ax", SStr)
		out = append(out, Forall([]*T{s}, pattern(App("hasPrefix", SBool, s, s), App("hasPrefix", SBool, s, s))))
	}
	if d.Has("sconcat") && (d.Has("cutPrefix") || d.Has("hasPrefix")) {
		// a + b starts with a, and cutting a off leaves b
		a, b := Sym("a!ax", SStr), Sym("b!ax", SStr)
		c := App("sconcat", SStr, a, b)
		out = append(out, Forall([]*T{a, b}, pattern(And(App("hasPrefix", SBool, c, a), Eq(App("cutPrefix", SStr, c, a), b)), c)))
	}
	if d.Has("canon") && d.Has("lower") {
		// canonical form is case-insensitive: canon(x) = canon(y) whenever lower(x) = lower(y); lower(canon(x)) = lower(x)
		s := Sym("s!ax", SStr)
		out = append(out, Forall([]*T{s}, pattern(Eq(App("lower", SStr, App("canon", SStr, s)), App("lower", SStr, s)), App("canon", SStr, s))))
	}
	// nested-struct sub references: injective, kind-tagged
	var subs []string
	for n := range p.subRefs {
		if d.Has(n) {
			subs = append(subs, n)
		}
	}
	sort.Strings(subs)
	for _, n := range subs {
		r := Sym("r!ax", SInt)
		app := App(n, SInt, r)
		out = append(out, Forall([]*T{r}, pattern(Eq(App("inv_"+n, SInt, app), r), app)))
		out = append(out, Forall([]*T{r}, pattern(Eq(App("refkind", SInt, app), IntLit(int64(p.subRefs[n]))), app)))
		out = append(out, Forall([]*T{r}, pattern(Ne(app, IntLit(0)), app)))
		// a nested struct is allocated exactly when its owner is (in every allocation map the query mentions)
		var allocs []string
		for nm, srt := range d.consts {
			if strings.HasPrefix(nm, "Alloc!") && srt == ArrSort(SInt, SBool) {
				allocs = append(allocs, nm)
			}
		}
		sort.Strings(allocs)
		for _, nm := range allocs {
			a0 := Sym(nm, ArrSort(SInt, SBool))
			out = append(out, Forall([]*T{r}, pattern(Eq(Select(a0, app), Select(a0, r)), app)))
		}
	}
	// interface boxing of pointers is injective
	for i := 1; i <= len(p.tagName); i++ {
		n := fmt.Sprintf("mkiface_%d", i)
		if d.Has(n) {
			srt := SInt
			p.mu.Lock()
			if s2, ok := p.tagSort[i]; ok {
				srt = s2
			}
			p.mu.Unlock()
			r := Sym("r!ax", srt)
			app := App(n, SInt, r)
			out = append(out, Forall([]*T{r}, pattern(Eq(App("un"+n, srt, app), r), app)))
		}
	}
	return out
}

func pattern(body *T, pat *T) *T {
	s := "(! " + body.String() + " :pattern (" + pat.String() + "))"
	return &T{Op: s, S: SBool, str: s, Args: nil, Vars: nil, patBody: body, patTerm: pat}
}

type solverRun struct {
	name    string
	verdict string
	out     string
	dur     float64
}

func runSolver(ctx context.Context, name string, args []string, file string) solverRun {
	t0 := time.Now()
	cmd := exec.CommandContext(ctx, args[0], append(args[1:], file)...)
	// solvers may be wrapper scripts: kill the whole process group and do not wait for inherited pipes
	cmd.SysProcAttr = &syscall.SysProcAttr{Setpgid: true}
	cmd.Cancel = func() error {
		if cmd.Process != nil {
			syscall.Kill(-cmd.Process.Pid, syscall.SIGKILL)
		}
		return nil
	}
	cmd.WaitDelay = 500 * time.Millisecond
	var buf bytes.Buffer
	cmd.Stdout = &buf
	cmd.Stderr = &buf
	_ = cmd.Run()
	out := buf.String()
	first := strings.TrimSpace(strings.SplitN(out, "\n", 2)[0])
	v := "unknown"
	switch first {
	case "unsat":
		v = "unsat"
	case "sat":
		v = "sat"
	case "timeout":
		v = "timeout"
	}
	if strings.Contains(first, "error") {
		v = "error"
	}
	if ctx.Err() != nil && v == "unknown" {
		v = "timeout"
	}
	return solverRun{name: name, verdict: v, out: out, dur: time.Since(t0).Seconds()}
}

// solveOne races the solvers on one obligation.
func (p *Program) solveOne(ob *Obligation, cfg SolverCfg, idx int) {
	if ob.Unbound != "" {
		ob.Verdict = "unbound"
		ob.Solver = "binder"
		ob.SolverNotes = "clause does not bind to the current code: " + ob.Unbound
		return
	}
	// conjunctive goals are discharged conjunct by conjunct (smaller queries, better diagnostics)
	if !ob.Vacuity && ob.Goal.Op == "=>" && len(ob.Goal.Args) == 2 && ob.Goal.Args[1].Op == "and" {
		// A => (B1 && B2 ...) is split into A => Bi
		var parts []*T
		for _, b := range ob.Goal.Args[1].Args {
			parts = append(parts, Implies(ob.Goal.Args[0], b))
		}
		ob.Goal = App("and", SBool, parts...)
	}
	if !ob.Vacuity && ob.Goal.Op == "and" && len(ob.Goal.Args) > 1 {
		t0 := time.Now()
		var notes []string
		maxSize := 0
		for ci, g := range ob.Goal.Args {
			sub := *ob
			sub.Goal = g
			sub.Verdict, sub.Solver, sub.Model, sub.SolverNotes = "", "", "", ""
			p.solveOne(&sub, cfg, idx*100+ci+1000000)
			notes = append(notes, fmt.Sprintf("[%d:%s]", ci+1, sub.Solver))
			if sub.Size > maxSize {
				maxSize = sub.Size
			}
			ob.Solver = sub.Solver
			if sub.Verdict != "unsat" {
				ob.Verdict, ob.Model, ob.SMTFile = sub.Verdict, sub.Model, sub.SMTFile
				ob.SolverNotes = fmt.Sprintf("conjunct %d of %d: %s | %s", ci+1, len(ob.Goal.Args), g.String(), sub.SolverNotes)
				if len(ob.SolverNotes) > 1500 {
					ob.SolverNotes = ob.SolverNotes[:1500] + "…"
				}
				ob.TimeS = time.Since(t0).Seconds()
				ob.Size = maxSize
				return
			}
		}
		ob.Verdict = "unsat"
		ob.SolverNotes = strings.Join(notes, "")
		ob.TimeS = time.Since(t0).Seconds()
		ob.Size = maxSize
		return
	}
	if ob.Goal == True && !ob.Vacuity {
		ob.Verdict, ob.Solver = "unsat", "trivial"
		return
	}
	if !ob.Vacuity {
		gs := ob.Goal.String()
		for _, a := range ob.Assume {
			if a.String() == gs {
				ob.Verdict, ob.Solver = "unsat", "syntactic"
				return
			}
		}
	}
	base := filepath.Join(cfg.WorkDir, fmt.Sprintf("ob%04d", idx))
	if idx >= 1000000 {
		base = filepath.Join(cfg.WorkDir, fmt.Sprintf("ob%04d_c%02d", (idx-1000000)/100, (idx-1000000)%100))
	}
	fz := base + ".smt2"
	fc := base + ".cvc5.smt2"
	sz := p.emitSMT(ob, false)
	ob.Size = len(sz)
	ob.SMTFile = fz
	if len(sz) > 1<<20 {
		ob.Verdict, ob.Solver = "unknown", "vc-too-large"
		return
	}
	os.WriteFile(fz, []byte(sz), 0o644)
	needCVC := true
	if ob.Vacuity && cfg.TimeoutS > 2 {
		cfg.TimeoutS = 2 // a guard that cannot be decided quickly is not a failure
		if cfg.CrossCheck {
			cfg.TimeoutS = 5
		}
		cfg.CrossCheck = false
	}
	to := time.Duration(cfg.TimeoutS) * time.Second
	ctx, cancel := context.WithTimeout(context.Background(), to+2*time.Second)
	defer cancel()
	results := make(chan solverRun, 3)
	seedArg := fmt.Sprintf("smt.random_seed=%d", cfg.Seed)
	start := func(name string) {
		switch name {
		case "z3-new":
			go func() { results <- runSolver(ctx, name, []string{"z3-new", fmt.Sprintf("-T:%d", cfg.TimeoutS), seedArg, "-smt2"}, fz) }()
		case "z3":
			go func() { results <- runSolver(ctx, name, []string{"z3", fmt.Sprintf("-T:%d", cfg.TimeoutS), seedArg, "-smt2"}, fz) }()
		case "cvc5":
			go func() {
				os.WriteFile(fc, []byte(p.emitSMT(ob, true)), 0o644)
				results <- runSolver(ctx, name, []string{"cvc5", fmt.Sprintf("--tlimit=%d", cfg.TimeoutS*1000)}, fc)
			}()
		}
	}
	t0 := time.Now()
	started := 1
	start("z3-new")
	if ob.Vacuity {
		r := <-results
		ob.TimeS = time.Since(t0).Seconds()
		ob.Verdict, ob.Solver = r.verdict, r.name
		ob.SolverNotes = fmt.Sprintf("%s=%s(%.2fs)", r.name, r.verdict, r.dur)
		return
	}
	var all []solverRun
	var winner *solverRun
	stage2 := time.After(1500 * time.Millisecond)
	if cfg.CrossCheck {
		start("z3")
		start("cvc5")
		started = 3
		stage2 = nil
	}
	for len(all) < started {
		select {
		case r := <-results:
			all = append(all, r)
			if (r.verdict == "unsat" || r.verdict == "sat") && winner == nil {
				rr := r
				winner = &rr
				if !cfg.CrossCheck {
					cancel()
					goto done
				}
			}
			if !cfg.CrossCheck && started == 1 {
				// first solver gave up early: bring in the others now
				start("z3")
				if needCVC {
					start("cvc5")
				}
				started = 3
				stage2 = nil
			}
		case <-stage2:
			start("z3")
			if needCVC {
				start("cvc5")
			}
			started = 3
			stage2 = nil
		}
	}
done:
	ob.TimeS = time.Since(t0).Seconds()
	var notes []string
	for _, r := range all {
		notes = append(notes, fmt.Sprintf("%s=%s(%.2fs)", r.name, r.verdict, r.dur))
	}
	ob.SolverNotes = strings.Join(notes, " ")
	if cfg.CrossCheck {
		sawSat, sawUnsat := false, false
		for _, r := range all {
			if r.verdict == "sat" {
				sawSat = true
			}
			if r.verdict == "unsat" {
				sawUnsat = true
			}
		}
		if sawSat && sawUnsat {
			ob.Verdict, ob.Solver = "disagree", "cross-check"
			return
		}
	}
	if winner == nil {
		ob.Verdict, ob.Solver = "unknown", "none"
		if ob.Goal == False {
			// the clause evaluates to false on this path whatever the state is; the only open question was whether the
			// path is feasible, and no solver could show that it is not (a pruned or dead path is discharged as unsat)
			ob.Verdict, ob.Solver = "refuted", "evaluation"
		}
		for _, r := range all {
			ob.Model += "--- " + r.name + " ---\n" + truncate(r.out, 2000) + "\n"
		}
		// diagnosis: drop the quantified assumptions; a model of the weakened query is a candidate counterexample
		if !ob.Vacuity {
			var keep []string
			for _, l := range strings.Split(sz, "\n") {
				if strings.HasPrefix(l, "(assert ") && (strings.Contains(l, "(forall ") || strings.Contains(l, "(exists ")) && !strings.HasPrefix(l, "(assert (not ") {
					continue
				}
				keep = append(keep, l)
			}
			fq := base + ".qf.smt2"
			os.WriteFile(fq, []byte(strings.Join(keep, "\n")), 0o644)
			ctx2, cancel2 := context.WithTimeout(context.Background(), 5*time.Second)
			r := runSolver(ctx2, "z3-new", []string{"z3-new", "-T:3", "-smt2"}, fq)
			cancel2()
			ob.SolverNotes += fmt.Sprintf(" | quantifier-free weakening: %s", r.verdict)
			if r.verdict == "sat" {
				ob.CandidateModel = truncate(r.out, 200000)
			}
		}
		return
	}
	ob.Verdict, ob.Solver = winner.verdict, winner.name
	if winner.verdict == "sat" {
		ob.Model = truncate(winner.out, 200000)
	}
}

func truncate(s string, n int) string {
	if len(s) > n {
		return s[:n] + "…"
	}
	return s
}

// solveAll discharges all obligations in parallel.
func (p *Program) solveAll(obs []*Obligation, cfg SolverCfg) {
	os.MkdirAll(cfg.WorkDir, 0o755)
	par := cfg.Parallel
	if par <= 0 {
		par = 8
	}
	sem := make(chan struct{}, par)
	var wg sync.WaitGroup
	for i, ob := range obs {
		wg.Add(1)
		sem <- struct{}{}
		go func(i int, ob *Obligation) {
			defer wg.Done()
			defer func() { <-sem }()
			p.solveOne(ob, cfg, i)
		}(i, ob)
	}
	wg.Wait()
	// Second chance: an obligation no solver decided may have lost to machine load (all checks and all
	// obligations run in parallel). Up to eight of them are tried again, four at a time, with twice the budget.
	var again []int
	for i, ob := range obs {
		if !ob.Vacuity && ob.Unbound == "" && (ob.Verdict == "unknown" || ob.Verdict == "timeout") && ob.Solver != "vc-too-large" {
			again = append(again, i)
		}
	}
	if len(again) == 0 || len(again) > 8 {
		return
	}
	cfg2 := cfg
	cfg2.TimeoutS = cfg.TimeoutS * 2
	if cfg2.TimeoutS > 90 {
		cfg2.TimeoutS = 90
	}
	cfg2.Seed = cfg.Seed + 1
	sem2 := make(chan struct{}, 4)
	for _, i := range again {
		wg.Add(1)
		sem2 <- struct{}{}
		go func(i int, ob *Obligation) {
			defer wg.Done()
			defer func() { <-sem2 }()
			first := *ob
			ob.Verdict, ob.Solver, ob.Model, ob.SolverNotes, ob.CandidateModel = "", "", "", "", ""
			p.solveOne(ob, cfg2, i)
			if ob.Verdict == "unknown" || ob.Verdict == "timeout" {
				notes := ob.SolverNotes
				*ob = first
				ob.SolverNotes += " | retried with " + fmt.Sprint(cfg2.TimeoutS) + "s: " + notes
				if len(ob.SolverNotes) > 3000 {
					ob.SolverNotes = ob.SolverNotes[:3000] + "…"
				}
				return
			}
			ob.SolverNotes += fmt.Sprintf(" | decided on the second attempt (%ds budget)", cfg2.TimeoutS)
		}(i, obs[i])
	}
	wg.Wait()
}
