package main

import (
	"fmt"
	"go/ast"
	"go/scanner"
	"hash/fnv"
	"go/token"
	"go/types"
	"os"
	"sort"
	"strconv"
	"strings"
	"sync"

	"golang.org/x/tools/go/packages"
	"golang.org/x/tools/go/ssa"
)

// A contract clause names local variables of the function it annotates. A maintainer who renames such a local has not
// changed what the function does, and the clause still means the same variable. Each contract therefore records, for
// every local it names, a description of that variable's declaration that does not depend on the variable's name (nor
// on the names of other locals): "the second result of the := whose right-hand side reads json.Unmarshal(_, &_)",
// "parameter 1 of the enclosing function". When a name in a clause no longer resolves, the declaration is looked up by
// that description and the clause is evaluated on whatever the variable is called now. The descriptions are generated
// (gvc locals) and kept in the contract files as `local` lines.

type localDesc struct {
	Kind string // define | range | var | param | result | recv
	Idx  int    // position among the names declared together
	Ord  int    // define/range/var: which of the textually identical declarations in the root function (source order)
	Up   int    // param/result/recv: how many closure levels above the function under contract
	Text string // define/range/var: normalised source of the right-hand side
}

func (d localDesc) String() string {
	switch d.Kind {
	case "param", "result", "recv":
		return fmt.Sprintf("%s %d %d", d.Kind, d.Up, d.Idx)
	}
	return fmt.Sprintf("%s %d %d %s", d.Kind, d.Idx, d.Ord, d.Text)
}

func parseLocalDesc(s string) (localDesc, error) {
	f := strings.Fields(s)
	if len(f) < 3 {
		return localDesc{}, fmt.Errorf("malformed local description %q", s)
	}
	a, e1 := strconv.Atoi(f[1])
	b, e2 := strconv.Atoi(f[2])
	if e1 != nil || e2 != nil {
		return localDesc{}, fmt.Errorf("malformed local description %q", s)
	}
	switch f[0] {
	case "param", "result", "recv":
		return localDesc{Kind: f[0], Up: a, Idx: b}, nil
	case "define", "range", "var":
		return localDesc{Kind: f[0], Idx: a, Ord: b, Text: strings.Join(f[3:], " ")}, nil
	}
	return localDesc{}, fmt.Errorf("malformed local description %q", s)
}

func (p *Program) pkgOfPos(pos token.Pos) (*packages.Package, *ast.File) {
	tf := p.fset.File(pos)
	if tf == nil {
		return nil, nil
	}
	for _, pk := range p.pkgs {
		for _, f := range pk.Syntax {
			if p.fset.File(f.Pos()) == tf {
				return pk, f
			}
		}
	}
	return nil, nil
}

func isLocalVar(pk *packages.Package, obj types.Object) bool {
	v, ok := obj.(*types.Var)
	if !ok || v.IsField() {
		return false
	}
	if v.Parent() == nil || v.Parent() == types.Universe || (v.Pkg() != nil && v.Parent() == v.Pkg().Scope()) {
		return false
	}
	return true
}

// canonText re-tokenises a piece of source: comments and layout are dropped; long texts are cut and carry a hash.
func canonText(src string) string {
	fs := token.NewFileSet()
	f := fs.AddFile("", fs.Base(), len(src))
	var sc scanner.Scanner
	sc.Init(f, []byte(src), nil, 0)
	var toks []string
	for {
		_, tok, lit := sc.Scan()
		if tok == token.EOF {
			break
		}
		if tok == token.SEMICOLON && lit == "\n" {
			continue
		}
		if lit != "" {
			toks = append(toks, lit)
		} else {
			toks = append(toks, tok.String())
		}
	}
	out := strings.Join(toks, " ")
	if len(out) > 160 {
		h := fnv.New32a()
		h.Write([]byte(out))
		cut := strings.LastIndex(out[:120], " ")
		if cut < 0 {
			cut = 0
		}
		out = fmt.Sprintf("%s …#%08x", out[:cut], h.Sum32())
	}
	return out
}

// normSrc is the source text of n with every identifier that denotes a local variable replaced by "_".
func (p *Program) normSrc(pk *packages.Package, n ast.Node) string {
	if n == nil {
		return ""
	}
	tf := p.fset.File(n.Pos())
	if tf == nil {
		return ""
	}
	p.srcBetween(n.Pos(), n.Pos()) // fills the cache
	p.mu.Lock()
	b := p.srcCache[tf.Name()]
	p.mu.Unlock()
	lo, hi := tf.Offset(n.Pos()), tf.Offset(n.End())
	if lo < 0 || hi > len(b) || lo > hi {
		return ""
	}
	type span struct {
		a, z int
		repl string
	}
	var spans []span
	ast.Inspect(n, func(m ast.Node) bool {
		if id, ok := m.(*ast.Ident); ok && id.Name != "_" {
			if obj := pk.TypesInfo.ObjectOf(id); obj != nil && isLocalVar(pk, obj) {
				spans = append(spans, span{tf.Offset(id.Pos()), tf.Offset(id.End()), "_"})
			}
		}
		if fl, ok := m.(*ast.FuncLit); ok && fl.Body != nil {
			// the body of a function literal is not part of the description (edits inside it must not unbind the name)
			spans = append(spans, span{tf.Offset(fl.Body.Pos()), tf.Offset(fl.Body.End()), "{}"})
		}
		return true
	})
	sort.Slice(spans, func(i, j int) bool { return spans[i].a < spans[j].a })
	var sb strings.Builder
	cur := lo
	for _, s := range spans {
		if s.a < cur {
			continue
		}
		sb.Write(b[cur:s.a])
		sb.WriteString(s.repl)
		cur = s.z
	}
	sb.Write(b[cur:hi])
	return canonText(sb.String())
}

func (p *Program) rhsText(pk *packages.Package, es []ast.Expr) string {
	var parts []string
	for _, e := range es {
		parts = append(parts, p.normSrc(pk, e))
	}
	return strings.Join(parts, ", ")
}

type declSite struct {
	kind  string
	text  string
	names []*ast.Ident
	pos   token.Pos
}

// declSites lists the declarations of locals in root (closures included) in source order.
func (p *Program) declSites(pk *packages.Package, root ast.Node) []declSite {
	var out []declSite
	ast.Inspect(root, func(n ast.Node) bool {
		switch s := n.(type) {
		case *ast.AssignStmt:
			if s.Tok == token.DEFINE {
				d := declSite{kind: "define", text: p.rhsText(pk, s.Rhs), pos: s.Pos()}
				for _, l := range s.Lhs {
					id, _ := l.(*ast.Ident)
					d.names = append(d.names, id)
				}
				out = append(out, d)
			}
		case *ast.RangeStmt:
			if s.Tok == token.DEFINE {
				d := declSite{kind: "range", text: p.normSrc(pk, s.X), pos: s.Pos()}
				k, _ := s.Key.(*ast.Ident)
				d.names = append(d.names, k)
				if s.Value != nil {
					v, _ := s.Value.(*ast.Ident)
					d.names = append(d.names, v)
				}
				out = append(out, d)
			}
		case *ast.ValueSpec:
			t := ""
			if s.Type != nil {
				t = p.normSrc(pk, s.Type)
			}
			if len(s.Values) > 0 {
				t += " = " + p.rhsText(pk, s.Values)
			}
			out = append(out, declSite{kind: "var", text: t, names: s.Names, pos: s.Pos()})
		}
		return true
	})
	return out
}

func rootOf(fn *ssa.Function) *ssa.Function {
	for fn.Parent() != nil {
		fn = fn.Parent()
	}
	return fn
}

func funcTypeOf(n ast.Node) (*ast.FuncType, *ast.FieldList) {
	switch f := n.(type) {
	case *ast.FuncDecl:
		return f.Type, f.Recv
	case *ast.FuncLit:
		return f.Type, nil
	}
	return nil, nil
}

func flatNames(fl *ast.FieldList) []*ast.Ident {
	var out []*ast.Ident
	if fl == nil {
		return nil
	}
	for _, f := range fl.List {
		if len(f.Names) == 0 {
			out = append(out, nil)
		}
		out = append(out, f.Names...)
	}
	return out
}

// describeDecl describes the declaration whose declaring identifier is at pos, as seen from fn.
func (p *Program) describeDecl(fn *ssa.Function, pos token.Pos) (localDesc, bool) {
	pk, file := p.pkgOfPos(pos)
	if pk == nil {
		return localDesc{}, false
	}
	// parameter, result or receiver of fn or of a function enclosing it
	up := 0
	for f := fn; f != nil; f = f.Parent() {
		if ft, recv := funcTypeOf(f.Syntax()); ft != nil {
			for i, id := range flatNames(ft.Params) {
				if id != nil && id.Pos() == pos {
					return localDesc{Kind: "param", Up: up, Idx: i}, true
				}
			}
			for i, id := range flatNames(ft.Results) {
				if id != nil && id.Pos() == pos {
					return localDesc{Kind: "result", Up: up, Idx: i}, true
				}
			}
			for i, id := range flatNames(recv) {
				if id != nil && id.Pos() == pos {
					return localDesc{Kind: "recv", Up: up, Idx: i}, true
				}
			}
		}
		up++
	}
	root := rootOf(fn).Syntax()
	if root == nil {
		return localDesc{}, false
	}
	_ = file
	sites := p.declSites(pk, root)
	for _, s := range sites {
		for i, id := range s.names {
			if id != nil && id.Pos() == pos {
				ord := 0
				for _, o := range sites {
					if o.pos == s.pos {
						break
					}
					if o.kind == s.kind && o.text == s.text && len(o.names) > i {
						ord++
					}
				}
				return localDesc{Kind: s.kind, Idx: i, Ord: ord, Text: s.text}, true
			}
		}
	}
	return localDesc{}, false
}

// resolveDecl finds the current name of the variable described by d, as seen from fn.
func (p *Program) resolveDecl(fn *ssa.Function, d localDesc) (string, bool) {
	switch d.Kind {
	case "param", "result", "recv":
		f := fn
		for i := 0; i < d.Up && f != nil; i++ {
			f = f.Parent()
		}
		if f == nil {
			return "", false
		}
		ft, recv := funcTypeOf(f.Syntax())
		if ft == nil {
			return "", false
		}
		var ids []*ast.Ident
		switch d.Kind {
		case "param":
			ids = flatNames(ft.Params)
		case "result":
			ids = flatNames(ft.Results)
		case "recv":
			ids = flatNames(recv)
		}
		if d.Idx < len(ids) && ids[d.Idx] != nil && ids[d.Idx].Name != "_" {
			return ids[d.Idx].Name, true
		}
		return "", false
	}
	root := rootOf(fn).Syntax()
	if root == nil {
		return "", false
	}
	pk, _ := p.pkgOfPos(root.Pos())
	if pk == nil {
		return "", false
	}
	ord := 0
	for _, s := range p.declSites(pk, root) {
		if s.kind != d.Kind || s.text != d.Text || d.Idx >= len(s.names) {
			continue
		}
		if ord == d.Ord {
			if id := s.names[d.Idx]; id != nil && id.Name != "_" {
				return id.Name, true
			}
			return "", false
		}
		ord++
	}
	return "", false
}

// declPos is the position of the identifier that declares the local called name in f (mirrors lookupLocal).
func (f *Frame) declPos(name string) token.Pos {
	for _, p := range f.fn.Params {
		if p.Name() == name {
			return p.Pos()
		}
	}
	for _, fv := range f.fn.FreeVars {
		if fv.Name() == name {
			return fv.Pos()
		}
	}
	if a := f.findAlloc(name); a != nil {
		return a.Pos()
	}
	return token.NoPos
}

// lexicallyVisible reports whether a variable called name is in scope at the position the clause is evaluated at
// (known is false when that position is not known).
func (f *Frame) lexicallyVisible(name string) (visible, known bool) {
	if !f.scopePos.IsValid() {
		return false, false
	}
	fn := rootOf(f.fn)
	if fn.Pkg == nil || fn.Pkg.Pkg == nil {
		return false, false
	}
	inner := fn.Pkg.Pkg.Scope().Innermost(f.scopePos)
	if inner == nil {
		return false, false
	}
	_, obj := inner.LookupParent(name, f.scopePos)
	if obj == nil {
		return false, true
	}
	_, isVar := obj.(*types.Var)
	return isVar, true
}

// currentNames lists what the declarations the contract describes under name are called now.
func (p *Program) currentNames(fc *FuncContract, fn *ssa.Function, name string) []string {
	var out []string
	if fc == nil || fc.Locals == nil {
		return nil
	}
	for _, d := range fc.Locals[name] {
		if nn, ok := p.resolveDecl(fn, d); ok {
			out = append(out, nn)
		}
	}
	return out
}

// aliasOf: the clause names a local that does not exist (any more) at this position; if the contract describes its
// declaration and that declaration is still there under another name, that name. Among several declarations described
// under the same name (two loops with a variable k) the one visible at the position of the clause is meant.
func (e *Env) aliasOf(name string) (string, bool) {
	if e.fr == nil || e.fr.contract == nil || e.fr.contract.Locals == nil {
		return "", false
	}
	var cands []string
	for _, nn := range e.x.prog.currentNames(e.fr.contract, e.fr.fn, name) {
		if nn != name {
			cands = append(cands, nn)
		}
	}
	pick := ""
	for _, nn := range cands {
		if vis, known := e.fr.lexicallyVisible(nn); known && vis {
			pick = nn
			break
		}
	}
	if pick == "" {
		for _, nn := range cands {
			if _, known := e.fr.lexicallyVisible(nn); !known {
				pick = nn
				break
			}
		}
	}
	if pick == "" && len(cands) > 0 {
		// not lexically visible at the clause position (clauses evaluated at a return may name block-local variables)
		pick = cands[0]
	}
	if pick == "" {
		return "", false
	}
	e.x.noteAbstraction(fmt.Sprintf("clause name %s denotes the local now called %s (same declaration)", name, pick))
	return pick, true
}

var recordMu sync.Mutex
var recorded = map[string]bool{}

// recordLocal appends "file<TAB>key<TAB>name<TAB>description" to $GVC_RECORD_LOCALS for a local a clause resolved.
func (e *Env) recordLocal(name string) {
	if os.Getenv("GVC_RECORD_LOCALS") == "" || e.fr == nil || e.fr.contract == nil {
		return
	}
	e.x.recordDecl(e.fr.contract, e.fr.fn, name, e.fr.declPos(name))
}

func (x *Exec) recordDecl(fc *FuncContract, fn *ssa.Function, name string, pos token.Pos) {
	path := os.Getenv("GVC_RECORD_LOCALS")
	if path == "" || fc == nil || !pos.IsValid() {
		return
	}
	k := fc.File + "\t" + fc.Key + "\t" + name + "\t" + fmt.Sprint(pos)
	recordMu.Lock()
	seen := recorded[k]
	recorded[k] = true
	recordMu.Unlock()
	if seen {
		return
	}
	d, ok := x.prog.describeDecl(fn, pos)
	if !ok {
		return
	}
	// the description must lead back to the same name, otherwise it is useless
	if nn, ok := x.prog.resolveDecl(fn, d); !ok || nn != name {
		return
	}
	recordMu.Lock()
	defer recordMu.Unlock()
	f, err := os.OpenFile(path, os.O_APPEND|os.O_CREATE|os.O_WRONLY, 0o644)
	if err != nil {
		return
	}
	fmt.Fprintf(f, "%s\t%s\t%s\t%s\n", fc.File, fc.Key, name, d)
	f.Close()
}

// recordChanName: a send / recv / close hook names its channel by the variable that holds it.
func (x *Exec) recordChanName(name string) {
	if os.Getenv("GVC_RECORD_LOCALS") == "" || x.contract == nil {
		return
	}
	fn := x.fn
	for _, p := range fn.Params {
		if p.Name() == name {
			x.recordDecl(x.contract, fn, name, p.Pos())
			return
		}
	}
	for _, fv := range fn.FreeVars {
		if fv.Name() == name {
			x.recordDecl(x.contract, fn, name, fv.Pos())
			return
		}
	}
	for _, b := range fn.Blocks {
		for _, ins := range b.Instrs {
			if a, ok := ins.(*ssa.Alloc); ok && a.Comment == name {
				x.recordDecl(x.contract, fn, name, a.Pos())
				return
			}
		}
	}
}

// matchHook: does hook h watch the event (kind, key)? Channel events are keyed by the name of the variable holding the
// channel; a hook written for a variable that has since been renamed watches the variable its description leads to.
func (x *Exec) matchHook(h *CallHook, kind, key string) bool {
	if h.Kind != kind {
		return false
	}
	isChan := kind == "send" || kind == "recv" || kind == "close"
	if x.matchKey(h.Pattern, key) {
		if isChan && h.Pattern == key {
			x.recordChanName(key)
		}
		return true
	}
	if isChan && x.contract != nil {
		for _, nn := range x.prog.currentNames(x.contract, x.fn, h.Pattern) {
			if nn == key {
				return true
			}
		}
	}
	return false
}

// recordSignature records the parameters, receiver and named results of a function under contract.
func (x *Exec) recordSignature(fc *FuncContract, fn *ssa.Function) {
	path := os.Getenv("GVC_RECORD_LOCALS")
	if path == "" || fc == nil || fn == nil {
		return
	}
	ft, recv := funcTypeOf(fn.Syntax())
	if ft == nil {
		return
	}
	var lines []string
	for _, ids := range [][]*ast.Ident{flatNames(ft.Params), flatNames(ft.Results), flatNames(recv)} {
		for _, id := range ids {
			if id == nil || id.Name == "_" {
				continue
			}
			k := fc.File + "\t" + fc.Key + "\t" + id.Name
			recordMu.Lock()
			seen := recorded[k]
			recorded[k] = true
			recordMu.Unlock()
			if seen {
				continue
			}
			if d, ok := x.prog.describeDecl(fn, id.Pos()); ok {
				lines = append(lines, fmt.Sprintf("%s\t%s\t%s\t%s\n", fc.File, fc.Key, id.Name, d))
			}
		}
	}
	if len(lines) == 0 {
		return
	}
	recordMu.Lock()
	defer recordMu.Unlock()
	if f, err := os.OpenFile(path, os.O_APPEND|os.O_CREATE|os.O_WRONLY, 0o644); err == nil {
		f.WriteString(strings.Join(lines, ""))
		f.Close()
	}
}
