package main

import (
	"fmt"
	"go/token"
	"go/types"
	"os"
	"path/filepath"
	"sort"
	"strings"
	"sync"

	"golang.org/x/tools/go/packages"
	"golang.org/x/tools/go/ssa"
	"golang.org/x/tools/go/ssa/ssautil"
)

type Program struct {
	mu        sync.Mutex
	repo      string
	fset      *token.FileSet
	pkgs      []*packages.Package
	ssa       *ssa.Program
	ssaPkgs   map[string]*ssa.Package // by package path
	contracts *ContractSet

	strSyms map[string]*T     // literal value -> symbol
	strVals map[string]string // symbol name -> literal value
	subRefs map[string]int
	tagOf   map[string]int
	tagName []string
	loops   map[*ssa.Function]*loopInfo
	modsets map[*ssa.Function]*modSet

	tagSort      map[int]Sort
	immutableGlobal map[string]bool // heap names of globals never assigned outside init
	defAxioms    map[string]*T // definitional axioms of opaque spec functions, by UF name
	unknownCalls map[string]int
	specUses     map[string]bool
	initFacts    map[string][]*T // package path -> entry assumptions from init()
	initNotes    map[string][]string
	initDone     map[string]bool
	anchorKey    map[*ssa.Function]string // closures bound to a contract by a source anchor
	anchored     map[string]bool          // pkgPath::key of anchored contracts
	srcCache     map[string][]byte
	chanTouch    map[*ssa.Function]bool
	anchorNotes  []string
}

const modulePath = "github.com/google/inverting-proxy"

func goEnv() []string {
	env := os.Environ()
	env = append(env, "GOFLAGS=-mod=mod", "GOPROXY=off", "GOSUMDB=off", "GOTOOLCHAIN=local", "GONOSUMDB=*", "GONOSUMCHECK=1")
	return env
}

func LoadProgram(repo string, patterns []string) (*Program, error) {
	cfg := &packages.Config{
		Mode: packages.NeedName | packages.NeedFiles | packages.NeedCompiledGoFiles | packages.NeedImports |
			packages.NeedTypes | packages.NeedTypesSizes | packages.NeedSyntax | packages.NeedTypesInfo | packages.NeedModule,
		Dir:        repo,
		Env:        goEnv(),
		BuildFlags: []string{"-tags=verif"},
		Tests:      false,
	}
	pkgs, err := packages.Load(cfg, patterns...)
	if err != nil {
		return nil, err
	}
	var errs []string
	packages.Visit(pkgs, nil, func(p *packages.Package) {
		for _, e := range p.Errors {
			errs = append(errs, e.Error())
		}
	})
	if len(errs) > 0 {
		return nil, fmt.Errorf("load errors:\n%s", strings.Join(errs, "\n"))
	}
	prog, spkgs := ssautil.Packages(pkgs, ssa.NaiveForm|ssa.GlobalDebug)
	p := &Program{repo: repo, fset: pkgs[0].Fset, pkgs: pkgs, ssa: prog, ssaPkgs: map[string]*ssa.Package{},
		contracts: NewContractSet(), strSyms: map[string]*T{}, strVals: map[string]string{}, subRefs: map[string]int{},
		tagOf: map[string]int{}, loops: map[*ssa.Function]*loopInfo{}, modsets: map[*ssa.Function]*modSet{},
		immutableGlobal: map[string]bool{}, defAxioms: map[string]*T{}, unknownCalls: map[string]int{}, specUses: map[string]bool{}, initFacts: map[string][]*T{}, initNotes: map[string][]string{}, initDone: map[string]bool{}}
	for i, sp := range spkgs {
		if sp == nil {
			return nil, fmt.Errorf("no SSA package for %s", pkgs[i].PkgPath)
		}
		sp.Build()
		p.ssaPkgs[pkgs[i].PkgPath] = sp
	}
	// contract files: verif_contracts.go in each loaded package directory
	for _, pk := range pkgs {
		if len(pk.GoFiles) == 0 {
			continue
		}
		dir := filepath.Dir(pk.GoFiles[0])
		cf := filepath.Join(dir, "verif_contracts.go")
		if _, err := os.Stat(cf); err == nil {
			if err := p.contracts.ParseFile(cf, pk.PkgPath); err != nil {
				return nil, err
			}
		}
	}
	p.anchorNotes = p.bindAnchors()
	return p, nil
}

func (p *Program) LoadSpecs(dir string) error {
	files, _ := filepath.Glob(filepath.Join(dir, "*.spec"))
	sort.Strings(files)
	for _, f := range files {
		if err := p.contracts.ParseFile(f, ""); err != nil {
			return err
		}
	}
	return nil
}

func (p *Program) strLit(s string) *T {
	p.mu.Lock()
	defer p.mu.Unlock()
	if t, ok := p.strSyms[s]; ok {
		return t
	}
	name := fmt.Sprintf("str!%d", len(p.strSyms))
	t := Sym(name, SStr)
	p.strSyms[s] = t
	p.strVals[name] = s
	return t
}

func (p *Program) litVal(t *T) (string, bool) {
	if len(t.Args) != 0 {
		return "", false
	}
	p.mu.Lock()
	defer p.mu.Unlock()
	v, ok := p.strVals[t.Op]
	return v, ok
}

func (p *Program) litLen(t *T) (int, bool) {
	v, ok := p.litVal(t)
	return len(v), ok
}

func (p *Program) useSubRef(name string) {
	if _, ok := p.subRefs[name]; !ok {
		p.subRefs[name] = len(p.subRefs) + 1
	}
}

// normType makes type spellings comparable: no spaces, any == interface{}, short package qualifiers.
func normType(s string) string {
	s = shortenKey(s)
	s = strings.ReplaceAll(s, " ", "")
	s = anyRe.ReplaceAllString(s, "interface{}")
	return s
}

func (p *Program) typeTag(t types.Type) int {
	k := normType(types.TypeString(t, nil))
	if n, ok := p.tagOf[k]; ok {
		return n
	}
	n := len(p.tagName) + 1
	p.tagOf[k] = n
	p.tagName = append(p.tagName, k)
	return n
}

func (p *Program) typeTagByName(name string) int {
	// accept shortened names: resolve against known tags, else register the name
	name = normType(name)
	if n, ok := p.tagOf[name]; ok {
		return n
	}
	n := len(p.tagName) + 1
	p.tagOf[name] = n
	p.tagName = append(p.tagName, name)
	return n
}

func (p *Program) ssaPkgOf(pkg *types.Package) *ssa.Package {
	if pkg == nil {
		return nil
	}
	if sp, ok := p.ssaPkgs[pkg.Path()]; ok {
		return sp
	}
	return p.ssa.Package(pkg)
}

func (p *Program) importsOf(pkg *types.Package) []*types.Package {
	if pkg == nil {
		return nil
	}
	return pkg.Imports()
}

func (p *Program) isRepoFn(fn *ssa.Function) bool {
	f := fn
	for f.Parent() != nil {
		f = f.Parent()
	}
	if f.Pkg == nil {
		return false
	}
	_, ok := p.ssaPkgs[f.Pkg.Pkg.Path()]
	return ok
}

func (p *Program) pkgPathOf(fn *ssa.Function) string {
	f := fn
	for f.Parent() != nil {
		f = f.Parent()
	}
	if f.Pkg == nil {
		return ""
	}
	return f.Pkg.Pkg.Path()
}

// localKey is the function's name within its package as used in contract files: (*T).M, f, f$1.
func (p *Program) localKey(fn *ssa.Function) string {
	if k, ok := p.anchorKey[fn]; ok {
		return k
	}
	if par := fn.Parent(); par != nil && len(p.anchorKey) > 0 {
		for i, a := range par.AnonFuncs {
			if a == fn {
				k := p.localKey(par) + "$" + itoa(i+1)
				if p.anchored[p.pkgPathOf(fn)+"::"+k] {
					k += "'" // this ordinal name is owned by an anchored sibling
				}
				return k
			}
		}
	}
	s := shortenKey(fn.String())
	f := fn
	for f.Parent() != nil {
		f = f.Parent()
	}
	if f.Pkg != nil {
		s = strings.Replace(s, pkgQual(f.Pkg.Pkg)+".", "", 1)
	}
	return s
}

// shortName is pkgdir-qualified for obligation names: agent/utils.(*bufferedReadSeeker).Read
func (p *Program) shortName(fn *ssa.Function) string {
	pp := p.pkgPathOf(fn)
	pp = strings.TrimPrefix(pp, modulePath+"/")
	return pp + "." + p.localKey(fn)
}

func (p *Program) contractFor(fn *ssa.Function) *FuncContract {
	if !p.isRepoFn(fn) {
		return nil
	}
	return p.contracts.Funcs[p.pkgPathOf(fn)+"::"+p.localKey(fn)]
}

func (p *Program) pkgOfContract(fc *FuncContract, fn *ssa.Function) *types.Package {
	if fn != nil {
		f := fn
		for f.Parent() != nil {
			f = f.Parent()
		}
		if f.Pkg != nil {
			return f.Pkg.Pkg
		}
	}
	if fc.PkgPath != "" {
		if sp, ok := p.ssaPkgs[fc.PkgPath]; ok {
			return sp.Pkg
		}
	}
	return nil
}

func (p *Program) typeContract(n *types.Named) *TypeContract {
	if n.Obj().Pkg() == nil {
		return nil
	}
	return p.contracts.Types[n.Obj().Pkg().Path()+"::"+n.Obj().Name()]
}

func (p *Program) namedType(pkgPath, name string) *types.Named {
	sp, ok := p.ssaPkgs[pkgPath]
	if !ok {
		return nil
	}
	obj := sp.Pkg.Scope().Lookup(name)
	if obj == nil {
		return nil
	}
	n, _ := obj.Type().(*types.Named)
	return n
}

func (p *Program) loopsOf(fn *ssa.Function) *loopInfo {
	if li, ok := p.loops[fn]; ok {
		return li
	}
	li := analyzeLoops(fn)
	p.anchorLoops(fn, li)
	p.loops[fn] = li
	return li
}

func (p *Program) noteTagSort(tag int, s Sort) {
	p.mu.Lock()
	defer p.mu.Unlock()
	if p.tagSort == nil {
		p.tagSort = map[int]Sort{}
	}
	p.tagSort[tag] = s
}

func (p *Program) noteUnknownCall(key string) { p.unknownCalls[key]++ }
func (p *Program) noteSpecUse(key string)     { p.specUses[key] = true }

// findFunc locates a repository function by package path and local key.
func (p *Program) findFunc(pkgPath, key string) *ssa.Function {
	sp, ok := p.ssaPkgs[pkgPath]
	if !ok {
		return nil
	}
	var found *ssa.Function
	var visit func(fn *ssa.Function)
	visit = func(fn *ssa.Function) {
		if found != nil {
			return
		}
		if p.localKey(fn) == key {
			found = fn
			return
		}
		for _, a := range fn.AnonFuncs {
			visit(a)
		}
	}
	for _, m := range sp.Members {
		switch m := m.(type) {
		case *ssa.Function:
			visit(m)
		case *ssa.Type:
			for _, t := range []types.Type{m.Type(), types.NewPointer(m.Type())} {
				ms := p.ssa.MethodSets.MethodSet(t)
				for i := 0; i < ms.Len(); i++ {
					if fn := p.ssa.MethodValue(ms.At(i)); fn != nil && fn.Pkg == sp {
						visit(fn)
					}
				}
			}
		}
	}
	return found
}

// allFuncs enumerates functions (with bodies) of a repository package.
func (p *Program) allFuncs(pkgPath string) []*ssa.Function {
	sp, ok := p.ssaPkgs[pkgPath]
	if !ok {
		return nil
	}
	seen := map[*ssa.Function]bool{}
	var out []*ssa.Function
	var visit func(fn *ssa.Function)
	visit = func(fn *ssa.Function) {
		if fn == nil || seen[fn] || len(fn.Blocks) == 0 {
			return
		}
		seen[fn] = true
		out = append(out, fn)
		for _, a := range fn.AnonFuncs {
			visit(a)
		}
	}
	for _, m := range sp.Members {
		switch m := m.(type) {
		case *ssa.Function:
			visit(m)
		case *ssa.Type:
			for _, t := range []types.Type{m.Type(), types.NewPointer(m.Type())} {
				ms := p.ssa.MethodSets.MethodSet(t)
				for i := 0; i < ms.Len(); i++ {
					if fn := p.ssa.MethodValue(ms.At(i)); fn != nil && fn.Pkg == sp {
						visit(fn)
					}
				}
			}
		}
	}
	sort.Slice(out, func(i, j int) bool { return out[i].Pos() < out[j].Pos() })
	return out
}


// pkgQual is the qualifier go/ssa prints for a package's members: the last element of its import path.
func pkgQual(p *types.Package) string {
	path := p.Path()
	if i := strings.LastIndex(path, "/"); i >= 0 {
		return path[i+1:]
	}
	return path
}
