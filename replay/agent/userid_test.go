package main

import (
	"io"
	"net/http"
	"net/http/httptest"
	"testing"
	"time"

	"github.com/google/inverting-proxy/agent/utils"
)

// Replay for agent.forwardRequest#mon:single-user-id: a client-forged identity header must not reach the backend.
func TestReplayForgedUserID(t *testing.T) {
	proxySrv := httptest.NewServer(http.HandlerFunc(func(w http.ResponseWriter, r *http.Request) {
		io.Copy(io.Discard, r.Body)
		w.WriteHeader(http.StatusOK)
	}))
	defer proxySrv.Close()
	*proxy = proxySrv.URL + "/"
	*forwardUserID = true
	var seen []string
	backend := http.HandlerFunc(func(w http.ResponseWriter, r *http.Request) {
		seen = append([]string(nil), r.Header.Values(utils.HeaderUserID)...)
		w.WriteHeader(http.StatusOK)
	})
	req := httptest.NewRequest(http.MethodGet, "http://example.com/x", nil)
	req.Header.Set(utils.HeaderUserID, "forged@evil.example")
	fr := &utils.ForwardedRequest{BackendID: "b", RequestID: "r", User: "real@example.com", StartTime: time.Now(), Contents: req}
	if err := forwardRequest(proxySrv.Client(), backend, fr); err != nil {
		t.Fatalf("forwardRequest: %v", err)
	}
	if len(seen) != 1 || seen[0] != "real@example.com" {
		t.Fatalf("VIOLATION-REPRODUCED backend saw %s values %q, want exactly [real@example.com]", utils.HeaderUserID, seen)
	}
}
