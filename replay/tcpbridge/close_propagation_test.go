package connection

import (
	"context"
	"io"
	"net"
	"net/http"
	"net/http/httptest"
	"net/url"
	"strconv"
	"testing"
	"time"
)

// bridgeFixture starts a TCP backend that reports what it observes and a bridge Handler in front of it.
type bridgeFixture struct {
	srv        *httptest.Server
	ln         net.Listener
	backendEOF chan struct{} // closed when the backend's read side sees end-of-stream
	backendGot chan []byte
	conns      chan net.Conn
}

func newBridgeFixture(t *testing.T) *bridgeFixture {
	ln, err := net.Listen("tcp", "127.0.0.1:0")
	if err != nil {
		t.Fatal(err)
	}
	f := &bridgeFixture{ln: ln, backendEOF: make(chan struct{}), backendGot: make(chan []byte, 1), conns: make(chan net.Conn, 1)}
	go func() {
		c, err := ln.Accept()
		if err != nil {
			return
		}
		f.conns <- c
		b, _ := io.ReadAll(c) // returns when the bridge closes (its side of) the backend connection
		f.backendGot <- b
		close(f.backendEOF)
	}()
	port := ln.Addr().(*net.TCPAddr).Port
	f.srv = httptest.NewServer(Handler(port, http.NotFoundHandler()))
	return f
}

func (f *bridgeFixture) dial(t *testing.T) net.Conn {
	u, _ := url.Parse(f.srv.URL)
	u.Scheme = "ws"
	u.Path = StreamingPath
	c, err := DialWebsocket(context.Background(), u, nil)
	if err != nil {
		t.Fatalf("dial: %v", err)
	}
	return c
}

// Replay for Handler$1$1#post:destination-closed-when-the-source-ends (C16): the client closes its end; the backend
// must observe end-of-stream, after all bytes sent before the close, within bounded time.
func TestReplayClientCloseReachesBackend(t *testing.T) {
	f := newBridgeFixture(t)
	defer f.srv.Close()
	defer f.ln.Close()
	c := f.dial(t)
	if _, err := c.Write([]byte("last words")); err != nil {
		t.Fatal(err)
	}
	c.Close()
	select {
	case <-f.backendEOF:
		if got := string(<-f.backendGot); got != "last words" {
			t.Fatalf("backend saw %q before EOF, want %q", got, "last words")
		}
	case <-time.After(3 * time.Second):
		t.Fatalf("VIOLATION-REPRODUCED client closed its end of the bridged connection; the backend saw no end-of-stream within 3s")
	}
}

// Replay for Handler$1$2#post:destination-closed-when-the-source-ends (C16): the backend closes; the client must
// observe end-of-stream after the bytes sent before the close.
func TestReplayBackendCloseReachesClient(t *testing.T) {
	f := newBridgeFixture(t)
	defer f.srv.Close()
	defer f.ln.Close()
	c := f.dial(t)
	defer c.Close()
	bc := <-f.conns
	bc.Write([]byte("bye"))
	bc.Close()
	done := make(chan string, 1)
	go func() {
		b, _ := io.ReadAll(c)
		done <- string(b)
	}()
	select {
	case got := <-done:
		if got != "bye" {
			t.Fatalf("client saw %q before EOF, want %q", got, "bye")
		}
	case <-time.After(3 * time.Second):
		t.Fatalf("VIOLATION-REPRODUCED backend closed its end of the bridged connection; the client saw no end-of-stream within 3s")
	}
}

var _ = strconv.Itoa
