package main

import (
	"sync"
	"testing"
)

func TestNewIDRace(t *testing.T) {
	p := newProxy()
	var wg sync.WaitGroup
	seen := sync.Map{}
	for i := 0; i < 64; i++ {
		wg.Add(1)
		go func() {
			defer wg.Done()
			for j := 0; j < 2000; j++ {
				id := p.newID()
				if _, dup := seen.LoadOrStore(id, true); dup {
					t.Errorf("duplicate id %s", id)
				}
			}
		}()
	}
	wg.Wait()
}
