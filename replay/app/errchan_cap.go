package main

// capacity of the channel responseHandler passes to postResponse in the code under test (read from the source by the replay driver)
const errChanCapacityUsedByResponseHandler = 2
