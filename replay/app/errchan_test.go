package main

import (
	"context"
	"errors"
	"testing"
	"time"

	"github.com/google/inverting-proxy/app/types"
)

type bothWritesFail struct{ types.Store }

func (bothWritesFail) ReadRequest(ctx context.Context, backendID, requestID string) (*types.Request, error) {
	return &types.Request{BackendID: backendID, RequestID: requestID, StartTime: time.Now()}, nil
}
func (bothWritesFail) WriteResponse(ctx context.Context, r *types.Response) error {
	return errors.New("datastore unavailable (response)")
}
func (bothWritesFail) WriteRequest(ctx context.Context, r *types.Request) error {
	return errors.New("datastore unavailable (request)")
}

// Replay for responseHandler#pre:postResponse:errchan-has-room-for-both-writers: storage errors must never leave
// the agent's upload call hanging. The channel is created exactly as responseHandler creates it.
func TestReplayBothStoreWritesFail(t *testing.T) {
	notFoundErrs := make(chan error, errChanCapacityUsedByResponseHandler)
	done := make(chan struct{})
	go func() {
		postResponse(context.Background(), bothWritesFail{}, &types.Response{BackendID: "b", RequestID: "r", Contents: []byte("x")}, notFoundErrs)
		close(done)
	}()
	select {
	case <-done:
	case <-time.After(3 * time.Second):
		t.Fatalf("VIOLATION-REPRODUCED postResponse did not return within 3s when both store writes fail (second sender blocked on an error channel of capacity %d)", cap(notFoundErrs))
	}
}
