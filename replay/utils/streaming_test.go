package utils

import (
	"net/http"
	"net/http/httptest"
	"sort"
	"testing"
)

// Replay for (*streamingResponseWriter).WriteHeader#mon:interim-not-final: a 1xx interim response must not become the final status.
func TestReplayInterimStatus(t *testing.T) {
	respChan := make(chan *http.Response, 1)
	req := httptest.NewRequest(http.MethodGet, "http://example.com/", nil)
	w := NewStreamingResponseWriter(respChan, req)
	go func() {
		w.WriteHeader(http.StatusEarlyHints) // 103, as net/http handlers and ReverseProxy do for interim responses
		w.WriteHeader(http.StatusOK)
		w.Write([]byte("ok"))
		w.Close()
	}()
	resp := <-respChan
	if resp.StatusCode != http.StatusOK {
		t.Fatalf("VIOLATION-REPRODUCED final status delivered = %d, want 200 (interim 103 was committed as the final status)", resp.StatusCode)
	}
}

// Replay for (*streamingResponseWriter).WriteHeader#mon:trailer-keys: every declared trailer field is pre-declared on the response.
func TestReplayTwoDeclaredTrailers(t *testing.T) {
	respChan := make(chan *http.Response, 1)
	req := httptest.NewRequest(http.MethodGet, "http://example.com/", nil)
	w := NewStreamingResponseWriter(respChan, req)
	// httputil.ReverseProxy announces all trailer keys in ONE comma-separated header value
	w.Header().Set("Trailer", "X-A, X-B")
	go func() {
		w.WriteHeader(http.StatusOK)
		w.Header().Set("X-A", "1")
		w.Header().Set("X-B", "2")
		w.Close()
	}()
	resp := <-respChan
	var keys []string
	for k := range resp.Trailer {
		keys = append(keys, k)
	}
	sort.Strings(keys)
	if len(keys) != 2 || keys[0] != "X-A" || keys[1] != "X-B" {
		t.Fatalf("VIOLATION-REPRODUCED declared trailer keys = %q, want [X-A X-B]", keys)
	}
}
