package utils

import (
	"bytes"
	"io"
	"net/http"
	"strings"
	"sync"
	"testing"
)

// lateReader is a RoundTripper that behaves like net/http's transport when the server answers before the
// request body has been sent completely: RoundTrip returns the (5xx) response while the body is still being
// read by the write loop. The documentation of http.RoundTripper allows exactly this ("may do so in a
// separate goroutine even after RoundTrip returns").
type lateReader struct {
	mu       sync.Mutex
	attempt  int
	stolen   bytes.Buffer // bytes consumed by the first attempt's write loop after RoundTrip returned
	accepted bytes.Buffer // body of the attempt that was acknowledged with 200
	release  chan struct{}
	done     chan struct{}
}

func (l *lateReader) RoundTrip(r *http.Request) (*http.Response, error) {
	l.mu.Lock()
	l.attempt++
	n := l.attempt
	l.mu.Unlock()
	if n == 1 {
		// early 500: the write loop keeps draining the body in the background
		go func() {
			defer close(l.done)
			<-l.release
			buf := make([]byte, 7)
			k, _ := r.Body.Read(buf)
			l.stolen.Write(buf[:k])
		}()
		return &http.Response{StatusCode: 500, Body: io.NopCloser(strings.NewReader("")), Header: http.Header{}}, nil
	}
	// second attempt: let the stale reader of attempt 1 run first (an allowed schedule), then read everything
	close(l.release)
	<-l.done
	io.Copy(&l.accepted, r.Body)
	return &http.Response{StatusCode: 200, Body: io.NopCloser(strings.NewReader("")), Header: http.Header{}}, nil
}

// Replay for postResponseWithRetries#mon:body-not-in-use-by-transport: an upload acknowledged as successful must
// carry the complete serialised response from its first byte.
func TestReplayRetryWhileBodyInUse(t *testing.T) {
	payload := "HTTP/1.1 200 OK\r\nTransfer-Encoding: chunked\r\n\r\n5\r\nhello\r\n0\r\n\r\n"
	rt := &lateReader{release: make(chan struct{}), done: make(chan struct{})}
	client := &http.Client{Transport: rt}
	err := postResponseWithRetries(client, "http://proxy.example/agent/response", "b", "r", strings.NewReader(payload))
	if err != nil {
		t.Fatalf("upload reported failure: %v", err)
	}
	if got := rt.accepted.String(); got != payload {
		t.Fatalf("VIOLATION-REPRODUCED acknowledged upload carried %q (stale reader of attempt 1 took %q), want the complete response %q", got, rt.stolen.String(), payload)
	}
}
