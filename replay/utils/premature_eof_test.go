package utils

import (
	"io"
	"strings"
	"testing"
)

// Replay for (*bufferedReadSeeker).Read#post:no-premature-eof: after a rewind, a reader that uses a buffer smaller
// than the replayable prefix must still see the whole stream.
func TestReplayPrematureEOFOnReplay(t *testing.T) {
	const payload = "0123456789abcdef"
	b := newBufferedReadSeeker(strings.NewReader(payload), 4096)
	if got, _ := io.ReadAll(b); string(got) != payload {
		t.Fatalf("first pass read %q", got)
	}
	if _, err := b.Seek(0, io.SeekStart); err != nil {
		t.Fatalf("seek: %v", err)
	}
	var got []byte
	buf := make([]byte, 4)
	for {
		n, err := b.Read(buf)
		got = append(got, buf[:n]...)
		if err != nil {
			break
		}
	}
	if string(got) != payload {
		t.Fatalf("VIOLATION-REPRODUCED replay with 4-byte reads delivered %q and then EOF, want %q", got, payload)
	}
}
