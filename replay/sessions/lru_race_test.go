package sessions

import (
	"fmt"
	"sync"
	"testing"
	"time"
)

// Replay for (*Cache).cachedCookieJar#guard:cache: concurrent requests (of the same and of different sessions) must not
// touch the shared LRU without the lock. Run under -race: lru.Cache.Get reorders its list and is called unlocked.
func TestReplayConcurrentSessionLookups(t *testing.T) {
	c := NewCache("sid", time.Hour, 8, true)
	var wg sync.WaitGroup
	for g := 0; g < 16; g++ {
		wg.Add(1)
		go func(g int) {
			defer wg.Done()
			for i := 0; i < 2000; i++ {
				if _, err := c.cachedCookieJar(fmt.Sprintf("session-%d", (g+i)%12)); err != nil {
					t.Errorf("lookup failed: %v", err)
				}
			}
		}(g)
	}
	wg.Wait()
}
