package websockets

import (
	"context"
	"fmt"
	"testing"
)

func newBareConnection() (*Connection, context.CancelFunc) {
	ctx, cancel := context.WithCancel(context.Background())
	return &Connection{
		done:           ctx.Done,
		cancel:         cancel,
		clientMessages: make(chan *message, 10),
		serverMessages: make(chan *message, 10),
	}, cancel
}

func panics(f func()) (msg string) {
	defer func() {
		if r := recover(); r != nil {
			msg = fmt.Sprint(r)
		}
	}()
	f()
	return ""
}

// Replay for (*Connection).Close#safe:chan-close: two close calls for one session (the browser shim can issue them
// as independent requests that reach separate agent goroutines) must not crash the agent.
func TestReplayDoubleClose(t *testing.T) {
	conn, cancel := newBareConnection()
	defer cancel()
	conn.Close()
	if msg := panics(conn.Close); msg != "" {
		t.Fatalf("VIOLATION-REPRODUCED second Close panicked: %s (in the agent this panic is in a bare goroutine and kills the process)", msg)
	}
}

// Replay for (*Connection).SendClientMessage#safe:chan-send: a data call that is processed after a close call of the
// same session, before the writer goroutine has noticed the closed channel and cancelled the context.
func TestReplayDataAfterClose(t *testing.T) {
	conn, cancel := newBareConnection()
	defer cancel()
	conn.Close()
	if msg := panics(func() { conn.SendClientMessage("hello", false, nil) }); msg != "" {
		t.Fatalf("VIOLATION-REPRODUCED SendClientMessage after Close panicked: %s", msg)
	}
}
