package websockets

import (
	"context"
	"errors"
	"net"
	"net/http"
	"net/http/httptest"
	"strings"
	"sync"
	"testing"

	"github.com/google/inverting-proxy/agent/metrics"
	"github.com/gorilla/websocket"
)

// Replay for createShimChannel$1#mon:target-is-ws-on-the-backend-host: whatever URL the client places in a shim open
// request, the only peer the agent dials is the configured backend host.
func TestReplayOpenDialTarget(t *testing.T) {
	const backend = "backend.internal:8081"
	var mu sync.Mutex
	var dialed []string
	old := websocket.DefaultDialer.NetDialContext
	websocket.DefaultDialer.NetDialContext = func(ctx context.Context, network, addr string) (net.Conn, error) {
		mu.Lock()
		dialed = append(dialed, addr)
		mu.Unlock()
		return nil, errors.New("dial observed, not performed")
	}
	defer func() { websocket.DefaultDialer.NetDialContext = old }()
	identity := func(h http.Handler, _ *metrics.MetricHandler) http.Handler { return h }
	shim := createShimChannel(context.Background(), backend, "/shim/", false, identity, false, nil)
	for _, body := range []string{"x:y", "ws://evil.example:9/p?q=1", "/just/a/path", "//other.example/p"} {
		req := httptest.NewRequest(http.MethodPost, "http://agent.local/shim/open", strings.NewReader(body))
		shim.ServeHTTP(httptest.NewRecorder(), req)
	}
	mu.Lock()
	defer mu.Unlock()
	for _, addr := range dialed {
		if addr != backend {
			t.Fatalf("VIOLATION-REPRODUCED the agent dialled %q (all dials: %q), want only the configured backend %q", addr, dialed, backend)
		}
	}
	if len(dialed) == 0 {
		t.Fatalf("no dial was observed")
	}
}
