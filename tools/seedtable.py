#!/usr/bin/env python3
"""Rewrites the block between <!-- SEEDS-BEGIN --> and <!-- SEEDS-END --> in DESIGN.md from seeded/*/meta.json."""
import json, glob, os, re
root = os.path.dirname(os.path.dirname(os.path.abspath(__file__)))
rows = []
for m in sorted(glob.glob(os.path.join(root, "seeded", "*", "meta.json"))):
    d = json.load(open(m)); name = os.path.basename(os.path.dirname(m))
    rows.append("| `seeded/%s` | %s | %s | %s | %s |" % (name, d["property"], d["needs_to_manifest"].replace("|", "/"),
                "yes" if d["detected_by_check"] else "**no**", d["detected_by_obligations"].replace("|", "/")))
tab = "| change | property | needs, to manifest | caught | by (obligation) |\n|---|---|---|---|---|\n" + "\n".join(rows)
p = os.path.join(root, "DESIGN.md")
s = open(p).read()
s = re.sub(r"<!-- SEEDS-BEGIN -->.*?<!-- SEEDS-END -->", "<!-- SEEDS-BEGIN -->\n" + tab + "\n<!-- SEEDS-END -->", s, flags=re.S)
open(p, "w").write(s)
print(len(rows), "seeded changes listed")
