#!/usr/bin/env python3
"""Inserts `//@   at <snippet>` lines (closure and loop anchors suggested by `gvc anchors`) into the contract files.
usage: addanchors.py anchors.tsv [repo]"""
import sys, os, re
rows = [l.rstrip("\n").split("\t") for l in open(sys.argv[1]) if l.count("\t") == 3]
repo = sys.argv[2] if len(sys.argv) > 2 else "/repo"
by = {}
for d, key, n, txt in rows:
    by.setdefault(d, []).append((key, n, txt))
for d, items in by.items():
    p = os.path.join(repo, d, "verif_contracts.go")
    L = open(p).read().split("\n")
    out = []; cur = None; i = 0
    while i < len(L):
        l = L[i]; out.append(l)
        m = re.match(r'^//@ func (\S+)', l)
        if m:
            cur = m.group(1)
            for key, n, txt in items:
                if key == cur and n == "-" and not (i + 1 < len(L) and L[i + 1].startswith("//@   at ")):
                    out.append("//@   at " + txt)
        m = re.match(r'^//@   loop (\d+)\s*$', l)
        if m and cur:
            for key, n, txt in items:
                if key == cur and n == m.group(1) and not (i + 1 < len(L) and L[i + 1].startswith("//@     at ")):
                    out.append("//@     at " + txt)
        i += 1
    open(p, "w").write("\n".join(out))
    print(p, "annotated")
