#!/usr/bin/env python3
import json,sys
name,prop,needs,ran,detected,by=sys.argv[1:7]
json.dump({"property":prop,"breaks":prop,"needs_to_manifest":needs,"what_i_ran":ran,"detected_by_check":detected=="yes","detected_by_obligations":by,"source":"independent sub-agent given only the property text and a scratch worktree"},open('/verif/seeded/%s/meta.json'%name,'w'),indent=1)
