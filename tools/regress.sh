#!/bin/bash
# Runs every claimed check (quick tier unless $1 given) and prints one summary line each; exit 1 if any is not clean.
cd /verif
tier=${1:-quick}; bad=0
for i in $(jq -r '.checks[].property_id' MANIFEST.json); do
  out=$(timeout 3000 bin/gvc check $i --tier $tier 2>&1); rc=$?
  echo "$out" | grep -E "^gvc|TOOL-ERROR|^FAILED|^VIOLATION" | cut -c1-220
  [ $rc -ne 0 ] && { echo "   ^^^ $i exit=$rc"; bad=1; }
done
exit $bad
