#!/usr/bin/env python3
"""Rewrites the `//@   local NAME <description>` lines of the contract files from a recording made with
GVC_RECORD_LOCALS=<file> (every check run once on the unchanged tree; see DESIGN.md 11.3 "Renamed locals").
usage: addlocals.py locals.tsv"""
import sys, re
rows = sorted(set(tuple(l.rstrip("\n").split("\t")) for l in open(sys.argv[1]) if l.count("\t") == 3))
by = {}
for f, key, name, desc in rows:
    by.setdefault(f, {}).setdefault(key, {}).setdefault(name, set()).add(desc)
for p, keys in by.items():
    L = [l for l in open(p).read().split("\n") if not l.startswith("//@   local ")]
    out = []; i = 0
    while i < len(L):
        l = L[i]; out.append(l); i += 1
        m = re.match(r'^//@ func (\S+)', l)
        if not m:
            continue
        while i < len(L) and re.match(r'^//@\s*\|', L[i]):
            out.append(L[i]); i += 1
        j = i
        while j < len(L) and not re.match(r'^//@ (func|pure|spec|type|extern|ghost)\b', L[j]):
            j += 1
        block = "\n".join([l] + L[i:j])
        for name, descs in sorted(keys.get(m.group(1), {}).items()):
            if re.search(r'(?<![\w.])' + re.escape(name) + r'\b', block):  # only locals the clauses mention
                for desc in sorted(descs):
                    out.append("//@   local %s %s" % (name, desc))
    open(p, "w").write("\n".join(out))
    print(p, sum(len(v) for v in keys.values()), "locals")
