#!/usr/bin/env python3
"""Mutation campaigns (operator chosen with -m del|negif; default del). Statement-deletion campaign: every stand-alone call statement of the files given is deleted in turn on a scratch
copy of /repo; the quick checks of the properties served by that package's contracts are run on the copy. Survivors
(no check fails) are listed: each is either a harmless deletion (logging, metrics) or a gap in the contracts.
usage: stmtdel.py [-j N] file.go ..."""
import sys, os, re, subprocess, shutil, tempfile, json
from concurrent.futures import ThreadPoolExecutor
ENV = dict(os.environ, GOFLAGS="-mod=mod", GOPROXY="off", GOSUMDB="off", GOTOOLCHAIN="local")
SKIP = re.compile(r'^\s*(log\.|fmt\.Print|defer |go |return|panic\(|metricHandler\.|h\.metricHandler\.|w\.metricHandler\.|wg\.|t\.|time\.Sleep)')
CALL = re.compile(r'^\s+[\w\.\(\)\[\]\*&"]+\(.*\)\s*$')
def props_for(repo, f):
    c = os.path.join(repo, os.path.dirname(f), "verif_contracts.go")
    if not os.path.exists(c): return []
    ps = set()
    for m in re.finditer(r'props\(([^)]*)\)', open(c).read()):
        ps.update(p.strip() for p in m.group(1).split(','))
    return sorted(p for p in ps if p != "C07") + (["C07"] if "C07" in ps else [])
IFRE = re.compile(r'^(\s*(?:\} else )?if )(.*)( \{)\s*$')
def negate_if(line):
    m = IFRE.match(line)
    if not m: return None
    head, cond, tail = m.groups()
    if ';' in cond:
        i = cond.rindex(';')
        return head + cond[:i+1] + " !(" + cond[i+1:].strip() + ")" + tail
    return head + "!(" + cond + ")" + tail
RELS = [(" <= ", " < "), (" < ", " <= "), (" >= ", " > "), (" > ", " >= ")]
def relop(line):
    """off-by-one: the first ordering comparison of the line gets its boundary moved"""
    t = line.strip()
    if t.startswith("//") or "for " not in t and "if " not in t and "return " not in t and " = " not in t:
        return None
    best = None
    for a, b in RELS:
        i = line.find(a)
        if i >= 0 and (best is None or i < best[0]):
            best = (i, a, b)
    if not best or '"' in line[:best[0]] and line[:best[0]].count('"') % 2 == 1:
        return None
    i, a, b = best
    return line[:i] + b + line[i+len(a):]
NUM = re.compile(r'(?<![\w."])(\d{1,9})(?![\w."])')
def constmut(line):
    """the first integer literal >= 2 outside strings and comments is incremented"""
    t = line.strip()
    if t.startswith("//") or t.startswith("import") or "flag." in t or "log." in t or "Printf" in t or "Errorf" in t:
        return None
    code = line.split("//")[0]
    # skip literals inside string literals
    out = None
    inq = False
    i = 0
    while i < len(code):
        c = code[i]
        if c in '"`':
            inq = not inq
        if not inq:
            m = NUM.match(code, i)
            if m and (i == 0 or not (code[i-1].isalnum() or code[i-1] in '_."')):
                v = int(m.group(1))
                if v >= 2:
                    return line[:m.start(1)] + str(v + 1) + line[m.end(1):]
                i = m.end(1); continue
        i += 1
    return None
MODE = "del"
def funcs_by_file():
    """start line of every function under contract and the properties whose evidence lists it"""
    import glob
    m = {}
    for ev in glob.glob("/verif/evidence/C*.json"):
        d = json.load(open(ev))
        for fn in d["coverage"]["functions_under_contract"]:
            file, line = fn["pos"].split(":")[0], int(fn["pos"].split(":")[1])
            m.setdefault(file, {}).setdefault(line, set()).add(d["property_id"])
    return m
FBF = None
def props_at(f, lineno, allprops):
    """properties of the innermost function under contract starting at or before the line (closures start later
    than their parents, so the nearest preceding start is the innermost candidate; parents are added too)"""
    global FBF
    if FBF is None: FBF = funcs_by_file()
    starts = sorted(l for l in FBF.get(f, {}) if l <= lineno + 1)
    if not starts: return []
    ps = set()
    for l in starts[-3:]:
        ps |= FBF[f][l]
    return [p for p in allprops if p in ps]
def worker(args):
    idx, f, lineno, text, props = args
    props = props_at(f, lineno, props)
    if not props:
        return (f, lineno + 1, text.strip(), "not-under-contract", "")
    tmp = tempfile.mkdtemp(prefix="stmtdel-")
    try:
        cp = os.path.join(tmp, "repo")
        shutil.copytree("/repo", cp, ignore=shutil.ignore_patterns(".git"))
        p = os.path.join(cp, f)
        L = open(p).read().split("\n")
        L[lineno] = "" if MODE == "del" else (negate_if(L[lineno]) if MODE == "negif" else (relop(L[lineno]) if MODE == "relop" else constmut(L[lineno])))
        open(p, "w").write("\n".join(L))
        b = subprocess.run(["go", "build", "-o", os.devnull, "./" + os.path.dirname(f) + "/"], cwd=cp, env=ENV, capture_output=True, text=True)
        if b.returncode != 0:
            return (f, lineno + 1, text.strip(), "does-not-compile", "")
        for pr in props:
            r = subprocess.run(["/verif/bin/gvc", "check", pr, "--repo", cp, "--no-evidence"], capture_output=True, text=True, env=dict(ENV, VERIF_TIER="quick"))
            if r.returncode == 1:
                ob = [l for l in r.stdout.split("\n") if l.startswith("FAILED-OBLIGATION")]
                return (f, lineno + 1, text.strip(), "caught:" + pr, ob[0][19:140] if ob else "")
            if r.returncode == 2:
                return (f, lineno + 1, text.strip(), "tool-error:" + pr, "")
        return (f, lineno + 1, text.strip(), "SURVIVED", ",".join(props))
    finally:
        shutil.rmtree(tmp, ignore_errors=True)
def main():
    global MODE
    a = sys.argv[1:]; j = 3
    while a and a[0] in ("-j", "-m"):
        if a[0] == "-j": j = int(a[1])
        else: MODE = a[1]
        a = a[2:]
    jobs = []
    for f in a:
        props = props_for("/repo", f)
        L = open(os.path.join("/repo", f)).read().split("\n")
        for i, l in enumerate(L):
            if MODE == "del" and CALL.match(l) and not SKIP.match(l) and not l.strip().startswith("//"):
                jobs.append((len(jobs), f, i, l, props))
            if MODE == "negif" and negate_if(l) and not l.strip().startswith("//"):
                jobs.append((len(jobs), f, i, l, props))
            if MODE == "relop" and relop(l):
                jobs.append((len(jobs), f, i, l, props))
            if MODE == "const" and constmut(l):
                jobs.append((len(jobs), f, i, l, props))
    print(len(jobs), "candidate statements", flush=True)
    with ThreadPoolExecutor(max_workers=j) as ex:
        for r in ex.map(worker, jobs):
            print("\t".join(str(x) for x in r), flush=True)
if __name__ == "__main__":
    main()
