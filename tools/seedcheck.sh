#!/bin/bash
# usage: tools/seedcheck.sh <Cxx> <seed-dir-with-patch.diff> : applies the seeded change to /repo, runs the quick check, reverts.
id=$1; d=$2
cd /repo || exit 3
[ -z "$(git status --porcelain --untracked-files=no)" ] || { echo "REFUSING: /repo has uncommitted tracked changes (commit them first)"; exit 3; }
git apply --check "$d/patch.diff" || { echo "PATCH DOES NOT APPLY"; exit 3; }
git apply "$d/patch.diff"
(GOFLAGS=-mod=mod GOPROXY=off GOSUMDB=off go build ./... 2>&1 | head -5)
(cd /verif && bin/gvc check $id --no-evidence > /tmp/seedcheck.out 2>&1; echo "exit=$?"; grep -E "^FAILED" /tmp/seedcheck.out | cut -c1-230 | head -6; grep -cE "^VIOLATION" /tmp/seedcheck.out | sed 's/^/violation lines: /'; grep -E "^(TOOL-ERROR|gvc|KNOWN)" /tmp/seedcheck.out | cut -c1-200 | head -5)
git -C /repo checkout -- . 
git -C /repo status --short | head -3
