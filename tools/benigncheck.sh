#!/bin/bash
# Applies every behaviour-preserving change under /verif/benign to /repo in turn, runs all quick checks and compares with
# benign/<id>/meta.json: `pass` = every check exits 0; `undecided` = the listed checks exit 2 (contracts need migrating),
# no check exits 1. Any exit 1 is a false alarm.
cd /verif; bad=0
for d in benign/R*; do
  id=$(basename $d); exp=$(jq -r .expected $d/meta.json); want=$(jq -r '.checks_not_passing|join(" ")' $d/meta.json)
  out=$(tools/refcheck.sh /verif/$d/patch.diff 2>&1)
  got=$(echo "$out" | grep "^== " | sed 's/== \(C[0-9]*\) exit=\([0-9]*\)/\1:\2/' | tr '\n' ' ')
  alarm=$(echo "$got" | grep -c ":1")
  wantfmt=$(for c in $want; do echo -n "$c:2 "; done)
  if [ "$alarm" != 0 ]; then echo "FALSE-ALARM $id: $got"; bad=1
  elif [ "$got" = "$wantfmt" ]; then echo "ok   $id $exp ${got}"
  else echo "DIFF $id expected [$wantfmt] got [$got]"; bad=1; fi
done
exit $bad
