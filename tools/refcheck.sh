#!/bin/bash
# usage: tools/refcheck.sh <patch.diff> : applies a behaviour-preserving change to /repo, runs every quick check (16 in parallel),
# prints one line per check that is not clean (a clean run prints nothing but the summary), reverts.
p=$1
cd /repo || exit 3
[ -z "$(git status --porcelain --untracked-files=no)" ] || { echo "REFUSING: /repo has uncommitted tracked changes"; exit 3; }
git apply --check "$p" || { echo "PATCH DOES NOT APPLY"; exit 3; }
git apply "$p"
(GOFLAGS=-mod=mod GOPROXY=off GOSUMDB=off go build ./... 2>&1 | head -5)
out=$(mktemp -d /tmp/refcheck.XXXX)
cd /verif
jq -r '.checks[].property_id' MANIFEST.json | xargs -P 8 -I{} sh -c "timeout 1500 ${GVC:-bin/gvc} check {} --no-evidence > $out/{}.out 2>&1; echo \$? > $out/{}.rc"
n=0
for i in $(jq -r '.checks[].property_id' MANIFEST.json); do
  rc=$(cat $out/$i.rc)
  if [ "$rc" != 0 ]; then n=$((n+1)); echo "== $i exit=$rc"; grep -E "^(FAILED|TOOL-ERROR|VIOLATION)" $out/$i.out | cut -c1-260 | head -8; fi
done
echo "refcheck: $n checks not clean (outputs in $out)"
git -C /repo checkout -- .
git -C /repo status --short | head -3
