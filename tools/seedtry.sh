#!/bin/bash
# usage: tools/seedtry.sh <Cxx> <patch.diff> : applies the patch to a scratch export of /repo HEAD (never touches /repo) and runs the quick check there
id=$1; p=$2; t=$(mktemp -d /tmp/seedtry.XXXX); mkdir $t/repo
git -C /repo archive HEAD | tar -x -C $t/repo
(cd $t/repo && git apply "$p") || { echo "PATCH DOES NOT APPLY"; rm -rf $t; exit 3; }
(cd $t/repo && GOFLAGS=-mod=mod GOPROXY=off GOSUMDB=off GOTOOLCHAIN=local go build ./... 2>&1 | head -5)
cd /verif && timeout 1500 ${GVC:-bin/gvc} check $id --repo $t/repo --no-evidence > $t/out 2>&1; rc=$?
echo "exit=$rc"; grep -E "^(FAILED|TOOL-ERROR|VIOLATION|gvc|KNOWN)" $t/out | cut -c1-260 | head -12
rm -rf $t
