#!/usr/bin/env python3
# usage: unsatcore.py file.smt2 -- prints a minimal-ish set of assumptions (excluding the goal) that is already unsat
import subprocess,sys
f=sys.argv[1]
lines=open(f).read().split('\n')
asserts=[i for i,l in enumerate(lines) if l.startswith('(assert')]
goal=asserts[-1]
keep=set(asserts[:-1])
def unsat(ks):
    txt='\n'.join(l for i,l in enumerate(lines) if (i not in asserts) or (i in ks))
    open('/tmp/uc.smt2','w').write(txt)
    try:
        out=subprocess.run(['z3-new','-T:5','/tmp/uc.smt2'],capture_output=True,text=True,timeout=8).stdout
    except Exception: return False
    return out.startswith('unsat')
if not unsat(keep):
    print('assumptions are satisfiable (or unknown)'); sys.exit(0)
for i in sorted(keep):
    if unsat(keep-{i}): keep=keep-{i}
for i in sorted(keep): print(lines[i][:600])
