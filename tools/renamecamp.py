#!/usr/bin/env python3
"""Rename campaign: every local variable (parameters, results, receivers included) whose name occurs in the package's
contract file is renamed consistently on a scratch copy of /repo (gvc mutrename) - a change that cannot alter
behaviour - and the quick checks of the properties that cover the enclosing function are run
(restricted with --only to the functions whose name contains the enclosing function's name). Every line other than
PASS is a robustness gap: `undecided` = exit 2 (contracts would need migrating), `ALARM` = exit 1 (false alarm).
usage: renamecamp.py [-j N] [-a] ./pkg ...      (-a: all locals, not only those the contract file mentions)"""
import sys, os, re, subprocess, shutil, tempfile
from concurrent.futures import ThreadPoolExecutor
sys.path.insert(0, os.path.dirname(os.path.abspath(__file__)))
import stmtdel
ENV = stmtdel.ENV
GVC = os.environ.get("GVC", "/verif/bin/gvc")
def worker(job):
    pkg, idx, file, line, fn, name, props = job
    rel = os.path.relpath(file, "/repo")
    props = stmtdel.props_at(rel, line - 1, props)
    if not props:
        return (pkg, idx, rel, line, fn, name, "not-under-contract", "")
    tmp = tempfile.mkdtemp(prefix="rencamp-")
    try:
        cp = os.path.join(tmp, "repo")
        shutil.copytree("/repo", cp, ignore=shutil.ignore_patterns(".git"))
        r = subprocess.run([GVC, "mutrename", "--repo", cp, "--pkg", pkg, "--n", str(idx)], capture_output=True, text=True, env=ENV)
        if r.returncode != 0:
            return (pkg, idx, rel, line, fn, name, "rename-failed", r.stderr[:100])
        b = subprocess.run(["go", "build", "-o", os.devnull, pkg + "/"], cwd=cp, env=ENV, capture_output=True, text=True)
        if b.returncode != 0:
            return (pkg, idx, rel, line, fn, name, "does-not-compile", b.stderr[:100].replace("\n", " "))
        bad = []
        for pr in props:
            r = subprocess.run([GVC, "check", pr, "--repo", cp, "--no-evidence", "--only", fn], capture_output=True, text=True, env=dict(ENV, VERIF_TIER="quick"))
            if r.returncode == 2 and "no obligations generated" in r.stdout + r.stderr:
                continue  # the function does not serve this property
            if r.returncode != 0:
                ob = [l for l in r.stdout.split("\n") if l.startswith("FAILED-OBLIGATION") or l.startswith("TOOL-ERROR")]
                bad.append(("ALARM:" if r.returncode == 1 else "undecided:") + pr + " " + (ob[0][19:200] if ob else r.stdout[-200:].replace("\n", " ")))
        if bad:
            return (pkg, idx, rel, line, fn, name, bad[0].split(" ")[0], " || ".join(bad))
        return (pkg, idx, rel, line, fn, name, "PASS", ",".join(props))
    finally:
        shutil.rmtree(tmp, ignore_errors=True)
def main():
    a = sys.argv[1:]; j = 4; allv = False; only = None
    while a and a[0] in ("-j", "-a", "-f"):
        if a[0] == "-j": j = int(a[1]); a = a[2:]
        elif a[0] == "-f":  # rerun the lines of an earlier result file that did not pass
            only = set(); pk = set()
            for l in open(a[1]):
                c = l.rstrip("\n").split("\t")
                if len(c) > 6 and c[6] not in ("PASS", "not-under-contract"):
                    only.add((c[0], int(c[1]))); pk.add(c[0])
            a = a[2:] + sorted(pk)
        else: allv = True; a = a[1:]
    jobs = []
    for pkg in a:
        d = pkg[2:] if pkg.startswith("./") else pkg
        props = stmtdel.props_for("/repo", d + "/x.go")
        ctext = open(os.path.join("/repo", d, "verif_contracts.go")).read()
        # the local lines themselves do not count as mentions
        ctext = "\n".join(l for l in ctext.split("\n") if not l.startswith("//@   local "))
        out = subprocess.run([GVC, "mutrename", "--repo", "/repo", "--pkg", pkg, "--list"], capture_output=True, text=True, env=ENV).stdout
        for l in out.strip().split("\n"):
            idx, file, line, fn, name = l.split("\t")
            if file.endswith("verif_contracts.go"): continue
            if only is not None:
                if (pkg, int(idx)) in only:
                    jobs.append((pkg, int(idx), file, int(line), fn, name, props))
                continue
            if allv or re.search(r'\b' + re.escape(name) + r'\b', ctext):
                jobs.append((pkg, int(idx), file, int(line), fn, name, props))
    print(len(jobs), "renames", flush=True)
    with ThreadPoolExecutor(max_workers=j) as ex:
        for r in ex.map(worker, jobs):
            print("\t".join(str(x) for x in r), flush=True)
if __name__ == "__main__":
    main()
