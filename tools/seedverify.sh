#!/bin/bash
# usage: tools/seedverify.sh <Cxx> <worktree> <pkg-path> <test-regex> [name]: confirms demo fails with the change and passes without; suite still builds; stores under /verif/seeded
id=$1; wt=$2; pkg=$3; rx=$4; name=${5:-$id}
export GOFLAGS=-mod=mod GOPROXY=off GOSUMDB=off GOTOOLCHAIN=local
cd $wt || exit 3
echo "== with change:"; go test -vet=off -count=1 -timeout 120s -run "$rx" $pkg 2>&1 | tail -4
git stash -q -- $(git diff --name-only) 2>/dev/null
echo "== without change:"; go test -vet=off -count=1 -timeout 120s -run "$rx" $pkg 2>&1 | tail -3
git stash pop -q
echo "== existing tests with change:"; go test -vet=off -count=1 -timeout 600s ./agent/utils/... ./agent/banner/... ./agent/sessions/... ./agent/websockets/... ./agent/metrics/... ./utils/... ./server/... ./app/... 2>&1 | grep -v "no test files" | tail -8
mkdir -p /verif/seeded/$name && cp -r seed_out/* /verif/seeded/$name/
