#!/usr/bin/env python3
"""Regenerates /verif/MANIFEST.json from the table below (kept in one place so it stays valid)."""
import json, subprocess, os

ROOT = os.path.dirname(os.path.dirname(os.path.abspath(__file__)))

TRUSTED = ("Trusted: go/packages+go/ssa (x/tools v0.29.0) as the representation of /repo's source, gvc's encoding of SSA "
           "instructions, the SMT solvers (z3 5.1.0, z3 4.8.12, cvc5 1.0), and the extern specs / native models of library "
           "functions listed in the evidence file. Partial correctness only; goroutine schedules are not explored.")

# id -> (claimed?, text, note, technique, design_ref) ; unclaimed -> reason
TECH = "contract-based deductive verification: WP/symbolic execution over go/ssa, SMT (z3/cvc5)"

def claim(text, notdecided, ref):
    return dict(text=text, note=TRUSTED + " Not decided by this check: " + notdecided, technique=TECH, ref=ref)

CLAIMS = {
 "C01": claim("Proof of the request-id correlation chain on the code of both ends: the stand-alone proxy stores, enqueues, serves and answers a request under one id (ServeHTTP, handleAgentGetRequest, handleAgentPostResponse: lookups by the named id, one delivery per upload, receive only from the request's own channel) with the pending table and the id generator used under the mutex; the agent fetches, forwards and binds the response forwarder under the ids of the worker (processOneRequest, its callback, forwardRequest).",
              "uniqueness of generated ids (probabilistic), interleavings inside net/http, that ReverseProxy writes the backend's answer to the forwarder it is given.", "DESIGN.md section 4 C01"),
 "C02": claim("Proof for all header maps that the proxy hands the client request to the pending table with exactly its hop-by-hop fields (RFC 7230 list, written in the contract) removed and every other field value, method, URL, Host and body reference untouched (map-range loop invariant with deletion during iteration), that the fetch handler does not modify the pending request (frame), and that the agent changes only the user-id / Authorization fields before the handler chain.",
              "the four library (de)serialisations (Request.Write, http.ReadRequest, ReverseProxy, net/http server) and hence byte-exact bodies; header keys from net/http are assumed canonical.", "DESIGN.md section 4 C02"),
 "C03": claim("Proof on the response path's own code: the streaming response writer commits exactly once with the final status (1xx ignored), hands over a header map holding exactly the end-to-end fields of the handler's map (RFC hop-by-hop names removed, same number of values per field, each value copied by position in order), pre-declares exactly the non-hop-by-hop field names listed in comma-separated Trailer values (nested loop invariants), passes body chunks to the pipe unchanged, signals end-of-body once and only after trailer collection with no hop-by-hop trailer; the stand-alone proxy relays the status of the response received on the request's own channel.",
              "Response.Write / ReadResponse / ReverseProxy / h2c (trusted), element-wise equality of copied values is carried by the per-Add monitor plus the trusted Header.Add semantics rather than by a quantified postcondition, the proxy's header/trailer copy loops (not yet under contract), timing between the handler and serialising goroutines.", "DESIGN.md section 4 C03"),
 "C05": claim("Safety core of a liveness property, proved: each body chunk is handed to the pipe in the same Write call (exactly one pipe write with the same slice), the buffered read-seeker performs exactly one source read per call and returns everything it read, the response is offered to the serialiser inside WriteHeader.",
              "the liveness itself (bounded time, progress), ReverseProxy's flush loop and net/http's chunked writer, the reverse proxy's flush interval (hostProxy not yet under contract).", "DESIGN.md section 4 C05"),
 "C04": claim("Proof over all histories of pending-list replies (loop invariant over ghost spawn counts and an abstract LRU view): an id is spawned at most once until the LRU evicts it; fetch, callback and backend hand-off happen exactly once per worker; the proxy enqueues each id once and a poller's reply is exactly the ids it received, in order.",
              "the groupcache LRU implementation (trusted abstract spec, eviction only on overflow), channel FIFO/exactly-once delivery (Go primitive), schedules of concurrent pollers.", "DESIGN.md section 4 C04"),
 "C06": claim("Deductive proof, for all buffer sizes, read sizes and stream contents, that the replay buffer's Read/Seek keep the abstract-stream invariant (bytes returned are the wrapped reader's stream from the logical position, no gap or duplicate; Seek succeeds only while everything consumed is still replayable); the retry loop makes at most three attempts, each starting at the first byte of the stream with the ids of this response, and stops on a failed seek. Known finding (listed, genuine, reproduced on the real code): the body is rewound while the previous attempt's transport may still be reading it.",
              "the transport's use of the body between attempts (extern: io.Reader protocol), timing of the previous attempt's reader.", "DESIGN.md section 4 C06"),
 "C08": claim("Full proof over the whole uint range (64-bit wrap-around exact, float64 rounding modelled, jitter in [0,1)): the delay is >= 1 ns and within 0.9..1.1 of min(2^n ms, 3 s) (+-2 ns), no shift >= 64 and no overflow; the polling loop sleeps exactly that delay after every failed list call before the next one, counts consecutive failures and resets on success (ghost monitors + loop invariants).",
              "that time.Sleep sleeps; the distribution of the jitter; a counter wrap after 2^64 consecutive failures.", "DESIGN.md section 4 C08"),
 "C09": claim("Proof for all header maps and flag values that the request given to the handler chain carries exactly one user-id value equal to the proxy-asserted user when forwarding is on, and no Authorization field when stripping is on, with every other field unchanged.",
              "canonical header keys (net/http), what gorilla adds to a websocket handshake.", "DESIGN.md section 4 C09"),
 "C15": claim("Proof for all sizes and segmentations: bytes returned by Read followed by the bytes kept are exactly the buffer (or the one non-empty decoded text frame) the call started with - nothing lost, duplicated or reordered; frames are decoded only when nothing is buffered and only text frames; Write sends exactly one text frame with the hex of exactly its argument and touches none of Read's state (disjoint frames).",
              "gorilla framing, hex codec inverse pair, io.Copy, TCP, isolation between connections.", "DESIGN.md section 4 C15"),
 "C17": claim("Proof for all identities, ids and records (every handler verified for an arbitrary store state): an agent endpoint reaches the store only after checkBackendID validated the caller's OAuth identity against the backend named in the request, and then only under that validated id; a rejected caller gets exactly one 401 write and no store access; the admin API calls the backend CRUD operations only after isAdminRequest returned true (403 otherwise), isAdminRequest is true iff App Engine admin or OAuth admin; the end-user handler routes for the signed-in user's e-mail (401 when anonymous); agent paths other than the three endpoints get 404.",
              "App Engine's user / datastore / memcache services (trusted specs), the store implementations behind types.Store other than the lookup functions (effects assumed confined to the datastore), the cron path's admin restriction (app yaml, outside Go).", "DESIGN.md section 4 C17"),
 "C19": claim("Proof of the split arithmetic for all sizes (part i is exactly the i-th 1,000,000-byte window, keys <name>.part<i> in order, inline part exactly the first 1,000,000 bytes, all slice bounds safe, parts fetched in listed order) and of the id correlation on every hop (request stored / polled / answered / read under the same backend and request id, response recorded and request marked completed only for an existing request of the validated backend, the served bytes are the stored ones), plus channel-capacity safety of the two concurrent store writes.",
              "datastore / memcache behaviour (put-then-get, GetMulti order), the byte-level round trip read(newBlob(b)) == b as one lemma (the two halves are proved separately against named windows), concurrency between client and agent calls.", "DESIGN.md section 4 C19"),
 "C18": claim("Full functional proof of longest-prefix selection for all backend sets, prefix lists and paths (nested loop invariants with existential witness; ties unranked as in the property); LookupBackend asks for the user's own backends first, falls back to shared ones only when the user has no match, requires the matched backend's tracker to be younger than 5 minutes and never falls back from a dead match; the handler answers 404 on lookup failure.",
              "datastore query semantics and entity well-formedness (assumed: non-nil entities with non-empty ids), the clock.", "DESIGN.md section 4 C18"),
 "C20": claim("Proof over all health-check histories (ghost consecutive-failure counter): the agent exits exactly when the count reaches max(1, threshold) and a success resets it; start-up returns only after a passing check; a check passes iff the probe succeeded with status 200; a pending-list call happens only after the polling context was seen live, and workers do not receive that context.",
              "signal timing relative to request phases, whether in-flight requests finish within the grace period, real time, process exit status (schedules / OS).", "DESIGN.md section 4 C20"),
}

NOT_APPLICABLE = {
 "C16": "liveness across goroutines and sockets (remote peer observes EOF within bounded time); no pre/post contract, invariant or frame on any function states or decides it (DESIGN.md section 4 C16)",
}

def main():
    props = [json.loads(l)["id"] for l in open(os.path.join(ROOT, "properties.jsonl"))]
    checks = []
    na = []
    for pid in props:
        if pid in CLAIMS:
            c = CLAIMS[pid]
            checks.append({
                "property_id": pid,
                "quick_cmd": f"bin/gvc check {pid} --tier quick",
                "thorough_cmd": f"bin/gvc check {pid} --tier thorough",
                "evidence_file": f"evidence/{pid}.json",
                "replay_cmd_template": "bin/gvc replay {path}",
                "engine": "gvc",
                "level_claimed": {"category": "proof", "text": c["text"], "design_ref": c["ref"]},
                "level_note": c["note"],
                "technique": c["technique"],
            })
        else:
            na.append({"property_id": pid, "reason": NOT_APPLICABLE.get(pid, "contracts for this property are not yet built in this framework (work in progress; see DESIGN.md section 9)")})
    hooks = []
    try:
        out = subprocess.run(["git", "-C", "/repo", "log", "--format=%H %s"], capture_output=True, text=True).stdout
        for l in out.splitlines():
            h, _, subj = l.partition(" ")
            if subj.startswith("verif:"):
                hooks.append(h)
    except Exception:
        pass
    m = {
        "version": 1,
        "setup_cmd": "cd gvc && GOFLAGS=-mod=vendor GOPROXY=off GOSUMDB=off GOTOOLCHAIN=local go build -o ../bin/gvc .",
        "hooks": {
            "guard": "verif",
            "enable": "-tags verif (comment-only contract files verif_contracts.go; they add no declarations)",
            "baseline_off_cmd": "cd /repo && GOFLAGS=-mod=mod GOPROXY=off GOSUMDB=off go test -vet=off -count=1 -timeout 25m ./...",
            "source_commits": hooks,
            "add_only": True,
        },
        "engines": [{"name": "gvc", "path": "gvc/", "serves_properties": sorted(CLAIMS.keys()),
                     "kind_free_text": "verification-condition generator for Go (symbolic execution over go/ssa between cut points, contracts in //@ comments) discharging to z3/cvc5"}],
        "checks": checks,
        "not_applicable": na,
        "notes": "Exit codes of every check: 0 all obligations discharged (or only listed known findings failed); 1 with VIOLATION lines; 2 tool error (never on the unchanged tree).",
    }
    json.dump(m, open(os.path.join(ROOT, "MANIFEST.json"), "w"), indent=1)
    print("wrote MANIFEST.json:", len(checks), "checks,", len(na), "not applicable")

if __name__ == "__main__":
    main()
