#!/usr/bin/env python3
"""Regenerates /verif/MANIFEST.json from the table below (kept in one place so it stays valid)."""
import json, subprocess, os

ROOT = os.path.dirname(os.path.dirname(os.path.abspath(__file__)))

TRUSTED = ("Trusted: go/packages+go/ssa (x/tools v0.29.0) as the representation of /repo's source, gvc's encoding of SSA "
           "instructions, the SMT solvers (z3 5.1.0, z3 4.8.12, cvc5 1.0), and the extern specs / native models of library "
           "functions listed in the evidence file. Partial correctness only; goroutine schedules are not explored.")

# id -> (claimed?, text, note, technique, design_ref) ; unclaimed -> reason
CLAIMS = {
 "C06": dict(text="Deductive proof, for all buffer sizes, read sizes and stream contents, that the replay buffer's Read/Seek keep the "
                  "abstract-stream invariant (bytes returned are the wrapped reader's stream from the logical position, no gap or duplicate; "
                  "Seek succeeds only while everything consumed is still replayable).",
             note=TRUSTED + " The transport's use of the body between attempts is an extern assumption (io.Reader protocol).",
             technique="contract-based deductive verification: WP/symbolic execution over go/ssa, SMT (z3/cvc5)", ref="DESIGN.md section 4 C06"),
}

NOT_APPLICABLE = {
 "C16": "liveness across goroutines and sockets (remote peer observes EOF within bounded time); no pre/post contract, invariant or frame on any function states or decides it (DESIGN.md section 4 C16)",
}

def main():
    props = [json.loads(l)["id"] for l in open(os.path.join(ROOT, "properties.jsonl"))]
    checks = []
    na = []
    for pid in props:
        if pid in CLAIMS:
            c = CLAIMS[pid]
            checks.append({
                "property_id": pid,
                "quick_cmd": f"bin/gvc check {pid} --tier quick",
                "thorough_cmd": f"bin/gvc check {pid} --tier thorough",
                "evidence_file": f"evidence/{pid}.json",
                "replay_cmd_template": "bin/gvc replay {path}",
                "engine": "gvc",
                "level_claimed": {"category": "proof", "text": c["text"], "design_ref": c["ref"]},
                "level_note": c["note"],
                "technique": c["technique"],
            })
        else:
            na.append({"property_id": pid, "reason": NOT_APPLICABLE.get(pid, "contracts for this property are not yet built in this framework (work in progress; see DESIGN.md section 9)")})
    hooks = []
    try:
        out = subprocess.run(["git", "-C", "/repo", "log", "--format=%H %s"], capture_output=True, text=True).stdout
        for l in out.splitlines():
            h, _, subj = l.partition(" ")
            if subj.startswith("verif:"):
                hooks.append(h)
    except Exception:
        pass
    m = {
        "version": 1,
        "setup_cmd": "cd gvc && GOFLAGS=-mod=vendor GOPROXY=off GOSUMDB=off GOTOOLCHAIN=local go build -o ../bin/gvc .",
        "hooks": {
            "guard": "verif",
            "enable": "-tags verif (comment-only contract files verif_contracts.go; they add no declarations)",
            "baseline_off_cmd": "cd /repo && GOFLAGS=-mod=mod GOPROXY=off GOSUMDB=off go test -vet=off -count=1 -timeout 25m ./...",
            "source_commits": hooks,
            "add_only": True,
        },
        "engines": [{"name": "gvc", "path": "gvc/", "serves_properties": sorted(CLAIMS.keys()),
                     "kind_free_text": "verification-condition generator for Go (symbolic execution over go/ssa between cut points, contracts in //@ comments) discharging to z3/cvc5"}],
        "checks": checks,
        "not_applicable": na,
        "notes": "Exit codes of every check: 0 all obligations discharged (or only listed known findings failed); 1 with VIOLATION lines; 2 tool error (never on the unchanged tree).",
    }
    json.dump(m, open(os.path.join(ROOT, "MANIFEST.json"), "w"), indent=1)
    print("wrote MANIFEST.json:", len(checks), "checks,", len(na), "not applicable")

if __name__ == "__main__":
    main()
