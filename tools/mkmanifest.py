#!/usr/bin/env python3
"""Regenerates /verif/MANIFEST.json from the table below (kept in one place so it stays valid)."""
import json, subprocess, os

ROOT = os.path.dirname(os.path.dirname(os.path.abspath(__file__)))

TRUSTED = ("Trusted: go/packages+go/ssa (x/tools v0.29.0) as the representation of /repo's source, gvc's encoding of SSA "
           "instructions, the SMT solvers (z3 5.1.0, z3 4.8.12, cvc5 1.0), and the extern specs / native models of library "
           "functions listed in the evidence file. Partial correctness only; goroutine schedules are not explored.")

# id -> (claimed?, text, note, technique, design_ref) ; unclaimed -> reason
TECH = "contract-based deductive verification: WP/symbolic execution over go/ssa, SMT (z3/cvc5)"

def claim(text, notdecided, ref):
    return dict(text=text, note=TRUSTED + " Not decided by this check: " + notdecided, technique=TECH, ref=ref)

CLAIMS = {
 "C01": claim("Proof of the request-id correlation chain on the code of both ends: the stand-alone proxy stores, enqueues, serves and answers a request under one id (ServeHTTP, handleAgentGetRequest, handleAgentPostResponse: lookups by the named id, one delivery per upload, receive only from the request's own channel) with the pending table and the id generator used under the mutex; the agent fetches, forwards and binds the response forwarder under the ids of the worker (processOneRequest, its callback, forwardRequest).",
              "uniqueness of generated ids (probabilistic), interleavings inside net/http, that ReverseProxy writes the backend's answer to the forwarder it is given.", "DESIGN.md section 4 C01"),
 "C02": claim("Proof for all header maps that the proxy hands the client request to the pending table with exactly its hop-by-hop fields (RFC 7230 list, written in the contract) removed and every other field value, method, URL, Host and body reference untouched (map-range loop invariant with deletion during iteration), that the fetch handler does not modify the pending request (frame), and that the agent changes only the user-id / Authorization fields before the handler chain.",
              "the four library (de)serialisations (Request.Write, http.ReadRequest, ReverseProxy, net/http server) and hence byte-exact bodies; header keys from net/http are assumed canonical.", "DESIGN.md section 4 C02"),
 "C03": claim("Proof on the response path's own code: the streaming response writer commits exactly once with the final status (1xx ignored), hands over a header map holding exactly the end-to-end fields of the handler's map (RFC hop-by-hop names removed, same number of values per field, each value copied by position in order), pre-declares exactly the non-hop-by-hop field names listed in comma-separated Trailer values (nested loop invariants), passes body chunks to the pipe unchanged, signals end-of-body once and only after trailer collection with no hop-by-hop trailer; the stand-alone proxy relays the status of the response received on the request's own channel, gives the client every non-hop-by-hop header field of that response with the very value list received (map-range invariant), adds nothing else but the chunking marker, and adds each value of each non-hop-by-hop trailer, in order, under the trailer prefix (nested count invariants + per-Add monitor); the agent's Close collects every value of every declared and prefixed trailer (count invariants over both collection loops).",
              "Response.Write / ReadResponse / ReverseProxy / h2c (trusted), element-wise equality of copied values is carried by the per-Add monitors plus the trusted Header.Add semantics (append under the canonical key) rather than by a quantified postcondition, timing between the handler and serialising goroutines.", "DESIGN.md section 4 C03"),
 "C05": claim("Safety core of a liveness property, proved: each body chunk is handed to the pipe in the same Write call (exactly one pipe write with the same slice), the buffered read-seeker performs exactly one source read per call and returns everything it read, the response is offered to the serialiser inside WriteHeader, and the handler chain is built around a reverse proxy whose FlushInterval is non-zero and at most 100 ms.",
              "the liveness itself (bounded time, progress), ReverseProxy's flush loop and net/http's chunked writer, what ReverseProxy does between flushes.", "DESIGN.md section 4 C05"),
 "C04": claim("Proof over all histories of pending-list replies (loop invariant over ghost spawn counts and an abstract LRU view): an id is spawned at most once until the LRU evicts it; fetch, callback and backend hand-off happen exactly once per worker; the proxy enqueues each id once and a poller's reply is exactly the ids it received, in order.",
              "the groupcache LRU implementation (trusted abstract spec, eviction only on overflow), channel FIFO/exactly-once delivery (Go primitive), schedules of concurrent pollers.", "DESIGN.md section 4 C04"),
 "C06": claim("Deductive proof, for all buffer sizes, read sizes and stream contents, that the replay buffer's Read/Seek keep the abstract-stream invariant (bytes returned are the wrapped reader's stream from the logical position, no gap or duplicate; Seek succeeds only while everything consumed is still replayable); the retry loop makes at most three attempts, each starting at the first byte of the stream with the ids of this response, and stops on a failed seek. Known finding (listed, genuine, reproduced on the real code): the body is rewound while the previous attempt's transport may still be reading it.",
              "the transport's use of the body between attempts (extern: io.Reader protocol), timing of the previous attempt's reader.", "DESIGN.md section 4 C06"),
 "C08": claim("Full proof over the whole uint range (64-bit wrap-around exact, float64 rounding modelled, jitter in [0,1)): the delay is >= 1 ns and within 0.9..1.1 of min(2^n ms, 3 s) (+-2 ns), no shift >= 64 and no overflow; the polling loop sleeps exactly that delay after every failed list call before the next one, counts consecutive failures and resets on success (ghost monitors + loop invariants).",
              "that time.Sleep sleeps; the distribution of the jitter; a counter wrap after 2^64 consecutive failures.", "DESIGN.md section 4 C08"),
 "C09": claim("Proof for all header maps and flag values that the request given to the handler chain carries exactly one user-id value equal to the proxy-asserted user when forwarding is on, and no Authorization field when stripping is on, with every other field unchanged.",
              "canonical header keys (net/http), what gorilla adds to a websocket handshake.", "DESIGN.md section 4 C09"),
 "C07": claim("No-panic / no-exit proof on the request path: every function under contract that a request worker, the polling loop, the response forwarder, the session and banner wrappers, the websocket shim handlers and the two websocket relay goroutines execute (73 functions) is proved free of nil dereference, out-of-range index/slice, nil-map write, failed type assertion, division by zero, unlock of an unlocked mutex, send on / close of a closed channel and explicit panic for all inputs satisfying its precondition, callers are checked against those preconditions, shared maps are proved accessed under their mutex, no os.Exit / log.Fatal is reachable from a request worker, and errors from fetch / forward / upload end only that worker. Known findings (listed, genuine, reproduced): Connection.Close and SendClientMessage can send on / close a channel that a concurrent Close has closed.",
              "panics inside library code called within its stated preconditions (net/http, gorilla, lru, ReverseProxy), data races on memory not guarded by a declared mutex, goroutine schedules, the 502 answer itself (produced by httputil.ReverseProxy's default error handler, which hostProxy is proved to leave in place), requests 'served normally afterwards' (liveness).", "DESIGN.md section 4 C07"),
 "C10": claim("Proof on the session layer's own code: the response writer commits once, moves every backend Set-Cookie into the jar of this writer's session under the request URL (https) and removes the whole Set-Cookie field, adds the agent's session cookie only when the client presented none, with the stated attributes and expiry now+lifetime; the request handler looks the jar up under the session id of this request (LRU accessed under the cache mutex), deletes the Cookie field, re-adds the client's cookies except the session cookie in order, then all cookies the jar returns for the request URL, and calls the wrapped handler once with this session's writer; disabled tracking returns the handler unwrapped.",
              "net/http/cookiejar semantics (trusted: SetCookies/Cookies per RFC 6265), the groupcache LRU (abstract spec), uuid uniqueness, the client seeing only headers written through this writer (net/http server), interleavings of concurrent requests beyond lock discipline.", "DESIGN.md section 4 C10"),
 "C11": claim("Proof on the relay code: the reader goroutine queues each message read from the backend once, with the type and byte slice ReadMessage returned, in read order; the writer goroutine writes each non-nil queued client message once with its own type and bytes in queue order; ReadServerMessages returns exactly the received sequence in order with nothing dropped; the data handler forwards the posted messages in array order; SendClientMessage queues one message per call iff it reports success, keeps the type, text as JSON string / binary as one-element array, base64 only under protocol version >= 1; header injection changes only JSON objects that have resource.headers and only by adding missing keys. Known finding (listed): SendClientMessage may send on a channel closed by a concurrent Close.",
              "channel FIFO/exactly-once delivery (Go primitive, trusted), gorilla framing, encoding/json and base64 codecs (trusted as inverse pairs; the decode side in the browser is outside Go), more than one outstanding poll.", "DESIGN.md section 4 C11"),
 "C12": claim("Proof for all bodies and session ids that each shim handler (open, data, poll, close) writes exactly one status on every path - 200 on success, 400 for unparsable bodies and for unknown or closed sessions, 408 on poll timeout, 500 on backend failures - looks up and removes exactly the session named in the call, registers only completely constructed connections, drops a session from the table only when it is dead, that Close queues the close frame before cancelling, and that a closed-and-drained connection reports an error after the already received messages were returned. Known findings (listed, genuine, reproduced): data racing with close / double close can send on or close a closed channel (panic).",
              "that every call terminates (liveness; blocking sends on full queues), sync.Map and gorilla internals, schedules other than through the declared shared-state relies.", "DESIGN.md section 4 C12"),
 "C13": claim("Proof for all client-supplied URLs (the parsed URL is an arbitrary url.URL value: any scheme, opaque part, userinfo, host): the dial target is built from the constant scheme ws, the configured backend host, and only Path / RawPath / RawQuery of the client's URL, with no opaque part and no userinfo; NewConnection dials exactly the string it was given, once; the shim mux mounts only the configured shim prefix and hands every other path to the wrapped handler with the same request object.",
              "url.URL.String() rendering (trusted: authority comes from Host only when Opaque is empty), gorilla's dialer (redirects, proxies from environment), DNS.", "DESIGN.md section 4 C13"),
 "C14": claim("Proof for all statuses, header maps, methods and bodies on the banner path: the three predicates equal their stated definitions (GET + Accept contains text/html; 200 + some Content-Type value containing text/html (or application/xhtml+xml) + no Content-Disposition value containing attachment - loop invariants over all header values; already-framed iff Sec-Fetch-Mode is nested-navigate or Sec-Fetch-Dest is iframe or, as a fallback only, the Referer parses to this request's host and path); the response writer commits once with the backend's status, changes only Cache-Control / Date / Expires / Pragma / X-Frame-Options (and Content-Encoding when it serves the frame page) and only for frameable HTML, leaving every header of every other response untouched, writes the frame page exactly once instead of the body when framing, and otherwise passes every body chunk through with the same slice; the handler gives non-HTML requests the original writer and HTML requests a fresh banner writer around it carrying this request's URL and framing verdict; the frame page is rendered once from the wrapper template with the requested URL's String(); the shim-script injector leaves body and headers of every response whose Content-Type lacks html untouched, and for html takes one read of at most 1024 bytes, replaces the first <head> in exactly those bytes once by <head>+script, serves that prefix followed by the rest of the original body, closes the original on Close and removes only Content-Length.",
              "strings.Replace / io.MultiReader / strings.NewReader semantics (trusted specs: first-n replacement, concatenation), html/template rendering of the frame page, net/http header canonicalisation, a <head> split across the first read boundary (then nothing is inserted - allowed by the property).", "DESIGN.md section 4 C14"),
 "C15": claim("Proof for all sizes and segmentations: bytes returned by Read followed by the bytes kept are exactly the buffer (or the one non-empty decoded text frame) the call started with - nothing lost, duplicated or reordered; frames are decoded only when nothing is buffered and only text frames; Write sends exactly one text frame with the hex of exactly its argument and touches none of Read's state (disjoint frames); the bridge handler passes non-bridge requests to the passthrough handler untouched, wraps exactly the upgraded websocket in a fresh per-connection codec state, dials the configured local port and copies each direction once between exactly that pair.",
              "gorilla framing, hex codec inverse pair, io.Copy, TCP.", "DESIGN.md section 4 C15"),
 "C16": claim("Safety core of a liveness property, proved on both ends of the bridge (agent-side Handler and tcp-bridge-frontend): each copy goroutine copies between exactly its pair of connections and, as soon as its direction has ended, closes the connection it was writing to (which is what lets the far peer observe end-of-stream and unblocks the opposite copy); on every exit path of the per-connection handler the websocket and the TCP connection that were opened are closed; only this pair's connections are ever closed. A genuine defect was found and repaired here (closes were not propagated at all; replayed on the real code).",
              "the liveness itself: that io.Copy returns when its source ends, bounded time, delivery of all bytes sent before the close (io.Copy / TCP / gorilla, trusted), TCP half-close (not representable over the websocket), connection counts over time.", "DESIGN.md section 4 C16 and section 11.6"),
 "C17": claim("Proof for all identities, ids and records (every handler verified for an arbitrary store state): an agent endpoint reaches the store only after checkBackendID validated the caller's OAuth identity against the backend named in the request, and then only under that validated id; a rejected caller gets exactly one 401 write and no store access; the admin API calls the backend CRUD operations only after isAdminRequest returned true (403 otherwise), isAdminRequest is true iff App Engine admin or OAuth admin; the end-user handler routes for the signed-in user's e-mail (401 when anonymous); agent paths other than the three endpoints get 404.",
              "App Engine's user / datastore / memcache services (trusted specs), the store implementations behind types.Store other than the lookup functions (effects assumed confined to the datastore), the cron path's admin restriction (app yaml, outside Go).", "DESIGN.md section 4 C17"),
 "C19": claim("Proof of the split arithmetic for all sizes (part i is exactly the i-th 1,000,000-byte window, keys <name>.part<i> in order, inline part exactly the first 1,000,000 bytes, all slice bounds safe, parts fetched in listed order) and of the id correlation on every hop (request stored / polled / answered / read under the same backend and request id, response recorded and request marked completed only for an existing request of the validated backend, the served bytes are the stored ones), plus channel-capacity safety of the two concurrent store writes.",
              "datastore / memcache behaviour (put-then-get, GetMulti order), the byte-level round trip read(newBlob(b)) == b as one lemma (the two halves are proved separately against named windows), concurrency between client and agent calls.", "DESIGN.md section 4 C19"),
 "C18": claim("Full functional proof of longest-prefix selection for all backend sets, prefix lists and paths (nested loop invariants with existential witness; ties unranked as in the property); LookupBackend asks for the user's own backends first, falls back to shared ones only when the user has no match, requires the matched backend's tracker to be younger than 5 minutes and never falls back from a dead match; the handler answers 404 on lookup failure.",
              "datastore query semantics and entity well-formedness (assumed: non-nil entities with non-empty ids), the clock.", "DESIGN.md section 4 C18"),
 "C20": claim("Proof over all health-check histories (ghost consecutive-failure counter): the agent exits exactly when the count reaches max(1, threshold) and a success resets it; start-up returns only after a passing check; a check passes iff the probe succeeded with status 200; a pending-list call happens only after the polling context was seen live, and workers do not receive that context; main runs the start-up check before it starts the periodic checks or the polling worker, the worker polls with the cancellable context, and on a shutdown signal (announced exactly when a SIGINT/SIGTERM was received) that context is cancelled before the grace period begins.",
              "signal timing relative to request phases, whether in-flight requests finish within the grace period, real time, process exit status (schedules / OS).", "DESIGN.md section 4 C20"),
}

NOT_APPLICABLE = {
}

def main():
    props = [json.loads(l)["id"] for l in open(os.path.join(ROOT, "properties.jsonl"))]
    checks = []
    na = []
    for pid in props:
        if pid in CLAIMS:
            c = CLAIMS[pid]
            checks.append({
                "property_id": pid,
                "quick_cmd": f"bin/gvc check {pid} --tier quick",
                "thorough_cmd": f"bin/gvc check {pid} --tier thorough",
                "evidence_file": f"evidence/{pid}.json",
                "replay_cmd_template": "bin/gvc replay {path}",
                "engine": "gvc",
                "level_claimed": {"category": "proof", "text": c["text"], "design_ref": c["ref"]},
                "level_note": c["note"],
                "technique": c["technique"],
            })
        else:
            na.append({"property_id": pid, "reason": NOT_APPLICABLE.get(pid, "contracts for this property are not yet built in this framework (work in progress; see DESIGN.md section 9)")})
    hooks = []
    try:
        out = subprocess.run(["git", "-C", "/repo", "log", "--format=%H %s"], capture_output=True, text=True).stdout
        for l in out.splitlines():
            h, _, subj = l.partition(" ")
            if subj.startswith("verif:"):
                hooks.append(h)
    except Exception:
        pass
    m = {
        "version": 1,
        "setup_cmd": "cd gvc && GOFLAGS=-mod=vendor GOPROXY=off GOSUMDB=off GOTOOLCHAIN=local go build -o ../bin/gvc .",
        "hooks": {
            "guard": "verif",
            "enable": "-tags verif (comment-only contract files verif_contracts.go; they add no declarations)",
            "baseline_off_cmd": "cd /repo && GOFLAGS=-mod=mod GOPROXY=off GOSUMDB=off go test -vet=off -count=1 -timeout 25m ./...",
            "source_commits": hooks,
            "add_only": True,
        },
        "engines": [{"name": "gvc", "path": "gvc/", "serves_properties": sorted(CLAIMS.keys()),
                     "kind_free_text": "verification-condition generator for Go (symbolic execution over go/ssa between cut points, contracts in //@ comments) discharging to z3/cvc5"}],
        "checks": checks,
        "not_applicable": na,
        "notes": "Exit codes of every check: 0 all obligations discharged (or only listed known findings failed); 1 with VIOLATION lines; 2 tool error (never on the unchanged tree).",
    }
    json.dump(m, open(os.path.join(ROOT, "MANIFEST.json"), "w"), indent=1)
    print("wrote MANIFEST.json:", len(checks), "checks,", len(na), "not applicable")

if __name__ == "__main__":
    main()
