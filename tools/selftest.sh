#!/bin/bash
# Runs the must-fail / must-pass mutant corpus against /repo (each mutant applied and reverted). usage: tools/selftest.sh [Cxx ...]
cd /verif
fail=0; n=0
while IFS=$'\t' read -r id file expr expect comment; do
  case "$id" in \#*|"") continue;; esac
  [ "$expect" = "SKIP" ] && continue
  if [ $# -gt 0 ]; then echo " $* " | grep -q " $id " || continue; fi
  n=$((n+1))
  cp /repo/$file /tmp/selftest.orig
  sed -i "$expr" /repo/$file
  if cmp -s /repo/$file /tmp/selftest.orig; then echo "NOT-APPLIED $id $comment"; fail=$((fail+1)); continue; fi
  out=$(bin/gvc check $id --no-evidence 2>&1); rc=$?
  cp /tmp/selftest.orig /repo/$file
  got=PASS; [ $rc -eq 1 ] && got=VIOLATION; [ $rc -eq 2 ] && got=TOOL-ERROR
  if [ "$got" = "$expect" ]; then echo "ok   $id $got: $comment"; else echo "MISS $id expected $expect got $got: $comment"; fail=$((fail+1)); fi
done < selftest/mutants.tsv
rm -f /tmp/selftest.orig
echo "selftest: $n mutants, $fail unexpected"
[ $fail -eq 0 ]
