#!/usr/bin/env python3
import json,glob,sys
for f in sorted(glob.glob('/verif/replays/%s/*.json' % sys.argv[1])):
    d=json.load(open(f))
    print(d['obligation'], d['verdict'], d['solver_notes'][:int(sys.argv[2]) if len(sys.argv)>2 else 700])
    print('  ', d['smt_file'])
