#!/usr/bin/env python3
"""Applies every seeded change to a scratch copy of /repo and runs the quick check of its property (usage: seedsweep.py <gvc binary>)."""
import json,glob,os,subprocess,shutil,tempfile,sys
from concurrent.futures import ThreadPoolExecutor
gvc=sys.argv[1]
def run(m):
    d=os.path.dirname(m); md=json.load(open(m)); name=os.path.basename(d)
    tmp=tempfile.mkdtemp(prefix="sweep-")
    try:
        cp=os.path.join(tmp,"repo"); os.makedirs(cp)
        subprocess.run("git -C /repo archive HEAD | tar -x -C "+cp,shell=True)
        r=subprocess.run(["git","apply",os.path.join(d,"patch.diff")],cwd=cp,capture_output=True)
        if r.returncode!=0: return (name,"patch-fails")
        r=subprocess.run([gvc,"check",md["property"],"--repo",cp,"--no-evidence"],capture_output=True,text=True)
        return (name,{0:"PASS",1:"VIOLATION",2:"TOOL-ERROR"}.get(r.returncode,str(r.returncode)))
    finally: shutil.rmtree(tmp,ignore_errors=True)
with ThreadPoolExecutor(max_workers=int(os.environ.get("SWEEP_J","5"))) as ex:
    for n,v in ex.map(run,sorted(glob.glob("/verif/seeded/*/meta.json"))):
        print(n,v,flush=True)
