#!/bin/bash
# usage: tools/mut.sh <Cxx> <file-relative-to-/repo> <sed-expr> : applies a sed mutation to /repo, runs the quick check without evidence, reverts.
id=$1; f=$2; expr=$3
cd /repo || exit 3
cp "$f" /tmp/mut.orig.$$ 
sed -i "$expr" "$f"
if cmp -s "$f" /tmp/mut.orig.$$; then echo "MUTATION DID NOT APPLY"; rm /tmp/mut.orig.$$; exit 3; fi
git diff --stat | head -2
(cd /repo && GOFLAGS=-mod=mod GOPROXY=off GOSUMDB=off go build ./$(dirname $f)/ 2>&1 | head -5)
(cd /verif && bin/gvc check $id --no-evidence 2>&1 | grep -E "^(VIOLATION|KNOWN|TOOL-ERROR|gvc|FAILED)" | cut -c1-300)
echo "exit=$?"
cp /tmp/mut.orig.$$ "$f"; rm /tmp/mut.orig.$$
git -C /repo status --short | head -3
